#!/usr/bin/env python3
"""seedsave.py <ID> <seed-name> <demo file> <needs> <caught-by> — copy a confirmed seeded change into /verif/seeded/<seed-name>/"""
import sys, os, shutil, json, subprocess
pid, name, demo, needs, caught = sys.argv[1:6]
src = sys.argv[6] if len(sys.argv) > 6 else '/tmp/seed_%s' % pid
dst = '/verif/seeded/%s' % name
os.makedirs(dst, exist_ok=True)
shutil.copy(src + '/patch.diff', dst + '/patch.diff')
shutil.copy(os.path.join(src, os.path.basename(demo)) if os.path.exists(os.path.join(src, os.path.basename(demo))) else demo, dst + '/' + os.path.basename(demo))
for f in ('README.md', 'demo_cmd.txt'):
    if os.path.exists(src + '/' + f):
        shutil.copy(src + '/' + f, dst + '/' + f)
meta = {"property": pid, "needs_to_manifest": needs, "caught_by": caught,
        "confirmed": "seedcheck.sh: builds; existing package tests give identical results with and without the change; demo fails with it, passes without",
        "ran": "git -C /repo apply patch.diff; ./check %s quick -> VIOLATION; git -C /repo checkout -- ." % pid, "origin": "independent sub-agent given only the property text"}
json.dump(meta, open(dst + '/meta.json', 'w'), indent=1)
print('saved', dst)
