package keeper_test

import (
	"testing"

	appparams "github.com/chain4energy/c4e-chain/app/params"
	testapp "github.com/chain4energy/c4e-chain/testutil/app"
	"github.com/chain4energy/c4e-chain/x/cfeminter/keeper"
	"github.com/chain4energy/c4e-chain/x/cfeminter/types"
	sdk "github.com/cosmos/cosmos-sdk/types"
)

// D20: MsgUpdateMintersParams whose minter list contains a nil entry, handed to the handler directly (basic validation refuses
// it): the handler dereferences the nil entry in Params.ContainsMinter before the parameters are validated.
func TestVerifD20(t *testing.T) {
	th := testapp.SetupTestApp(t)
	srv := keeper.NewMsgServerImpl(th.App.CfeminterKeeper)
	defer func() {
		if r := recover(); r != nil {
			t.Fatalf("UpdateMintersParams panicked: %v", r)
		}
	}()
	_, err := srv.UpdateMintersParams(sdk.WrapSDKContext(th.Context), &types.MsgUpdateMintersParams{Authority: appparams.GetAuthority(),
		StartTime: th.Context.BlockTime(), Minters: []*types.Minter{nil}})
	t.Logf("UpdateMintersParams returned: %v", err)
	if err == nil {
		t.Fatal("a nil minter was accepted")
	}
}
