package cfedistributor_test

import (
	"fmt"
	"testing"

	testapp "github.com/chain4energy/c4e-chain/testutil/app"
	"github.com/chain4energy/c4e-chain/x/cfedistributor"
	"github.com/chain4energy/c4e-chain/x/cfedistributor/types"
	sdk "github.com/cosmos/cosmos-sdk/types"
)

// D16: a single payout of more than MaxInt64 uc4e makes BeginBlocker panic in a deferred telemetry call.
func TestVerifD16(t *testing.T) {
	th := testapp.SetupTestApp(t)
	ctx := th.Context
	k := th.App.CfedistributorKeeper
	sd := types.SubDistributor{Name: "sd1", Sources: []*types.Account{{Type: types.Main}},
		Destinations: types.Destinations{PrimaryShare: types.Account{Id: types.ValidatorsRewardsCollector, Type: types.ModuleAccount}, BurnShare: sdk.ZeroDec()}}
	if err := k.SetParams(ctx, types.Params{SubDistributors: []types.SubDistributor{sd}}); err != nil {
		t.Fatal(err)
	}
	amt, _ := sdk.NewIntFromString("10000000000000000000") // 1e19 > MaxInt64
	th.BankUtils.AddDefaultDenomCoinsToModule(amt, types.DistributorMainAccount)
	defer func() {
		r := recover()
		fmt.Println("RECOVERED:", r)
		if r != nil {
			t.Fatalf("BeginBlocker panicked: %v", r)
		}
	}()
	cfedistributor.BeginBlocker(ctx, k)
}
