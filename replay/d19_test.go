package keeper_test

import (
	"testing"
	"time"

	appparams "github.com/chain4energy/c4e-chain/app/params"
	testapp "github.com/chain4energy/c4e-chain/testutil/app"
	cfemintertypes "github.com/chain4energy/c4e-chain/x/cfeminter/types"
	"github.com/chain4energy/c4e-chain/x/cfevesting/keeper"
	"github.com/chain4energy/c4e-chain/x/cfevesting/types"
	sdk "github.com/cosmos/cosmos-sdk/types"
)

// D19: governance sets the vesting denom to "a" (accepted by Params.Validate, which only rejects the empty string; no pools exist
// yet). From then on MsgCreateVestingPool panics in sdk.NewCoin instead of returning an error.
func TestVerifD19(t *testing.T) {
	th := testapp.SetupTestApp(t)
	ctx := th.Context
	srv := keeper.NewMsgServerImpl(th.App.CfevestingKeeper)
	if _, err := srv.UpdateDenomParam(sdk.WrapSDKContext(ctx), &types.MsgUpdateDenomParam{Authority: appparams.GetAuthority(), Denom: "a"}); err != nil {
		t.Logf("the update is refused: %v", err)
		return // (behaviour after the repair)
	}
	th.App.CfevestingKeeper.SetVestingType(ctx, types.VestingType{Name: "t1", LockupPeriod: time.Hour, VestingPeriod: time.Hour, Free: sdk.ZeroDec()})
	owner := sdk.AccAddress([]byte("verif_replay_owner__"))
	coins := sdk.NewCoins(sdk.NewCoin("uc4e", sdk.NewInt(1000)))
	_ = th.App.BankKeeper.MintCoins(ctx, cfemintertypes.ModuleName, coins)
	_ = th.App.BankKeeper.SendCoinsFromModuleToAccount(ctx, cfemintertypes.ModuleName, owner, coins)
	defer func() {
		if r := recover(); r != nil {
			t.Fatalf("MsgCreateVestingPool panicked: %v", r)
		}
	}()
	_, err := srv.CreateVestingPool(sdk.WrapSDKContext(ctx), &types.MsgCreateVestingPool{Owner: owner.String(), Name: "p", Amount: sdk.NewInt(10), Duration: time.Hour, VestingType: "t1"})
	t.Logf("CreateVestingPool returned: %v", err)
}
