package cfeminter_test

import (
	"testing"
	"time"

	appparams "github.com/chain4energy/c4e-chain/app/params"
	testapp "github.com/chain4energy/c4e-chain/testutil/app"
	"github.com/chain4energy/c4e-chain/x/cfeminter"
	"github.com/chain4energy/c4e-chain/x/cfeminter/types"
	codectypes "github.com/cosmos/cosmos-sdk/codec/types"
	sdk "github.com/cosmos/cosmos-sdk/types"
)

// D18: the chain is in period 2; governance moves the end of period 1 (= the start of period 2) into the future.
// Period 2 is an exponential-step period (the linear kind guards against a block time before its start, the exponential kind does not).
// The next block computes a negative expected amount in (-1, 0], mints 0 and stores a negative RemainderToMint:
// the exported genesis no longer passes validation.
func TestVerifD18(t *testing.T) {
	th := testapp.SetupTestApp(t)
	ctx := th.Context
	k := th.App.CfeminterKeeper
	now := ctx.BlockTime()
	start := now.Add(-2000 * time.Hour)
	end1 := now.Add(-1000 * time.Hour)
	end2 := now.Add(100000 * time.Hour)
	lin, _ := codectypes.NewAnyWithValue(&types.LinearMinting{Amount: sdk.NewInt(1000)})
	lin2, _ := codectypes.NewAnyWithValue(&types.ExponentialStepMinting{Amount: sdk.NewInt(1000), AmountMultiplier: sdk.NewDecWithPrec(5, 1), StepDuration: 1000 * time.Hour})
	no, _ := codectypes.NewAnyWithValue(&types.NoMinting{})
	mk := func(e1 time.Time) types.Params {
		return types.Params{MintDenom: "uc4e", StartTime: start, Minters: []*types.Minter{
			{SequenceId: 1, EndTime: &e1, Config: lin}, {SequenceId: 2, EndTime: &end2, Config: lin2}, {SequenceId: 3, Config: no}}}
	}
	if err := k.SetParams(ctx, mk(end1)); err != nil {
		t.Fatal(err)
	}
	k.SetMinterState(ctx, types.MinterState{SequenceId: 2, AmountMinted: sdk.ZeroInt(), RemainderToMint: sdk.ZeroDec(),
		RemainderFromPreviousMinter: sdk.ZeroDec(), LastMintBlockTime: now})
	// governance update accepted by UpdateParams: period 1 now ends one minute after the next block
	next := now.Add(5 * time.Second)
	if err := k.UpdateParams(ctx, appparams.GetAuthority(), mk(next.Add(time.Minute))); err != nil {
		t.Fatal(err)
	}
	ctx = ctx.WithBlockTime(next)
	cfeminter.BeginBlocker(ctx, k)
	st := k.GetMinterState(ctx)
	t.Logf("state after the block: %+v", st)
	gs := cfeminter.ExportGenesis(ctx, k)
	if err := gs.Validate(); err != nil {
		t.Fatalf("exported genesis does not validate: %v", err)
	}
}
