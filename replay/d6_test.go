package keeper_test

import (
	"fmt"
	"testing"
	"time"

	testapp "github.com/chain4energy/c4e-chain/testutil/app"
	"github.com/chain4energy/c4e-chain/x/cfevesting/keeper"
	"github.com/chain4energy/c4e-chain/x/cfevesting/types"
	sdk "github.com/cosmos/cosmos-sdk/types"
	authtypes "github.com/cosmos/cosmos-sdk/x/auth/types"
	vestingtypes "github.com/cosmos/cosmos-sdk/x/auth/vesting/types"
	"github.com/tendermint/tendermint/crypto/secp256k1"
)

// D6: splitting U=3 out of OV=5333333333333333346 after 1/4 of the vesting period releases a different amount than 3.
func TestVerifD6(t *testing.T) {
	th := testapp.SetupTestApp(t)
	ctx := th.Context
	app := th.App
	denom := "uc4e"
	from := sdk.AccAddress(secp256k1.GenPrivKey().PubKey().Address())
	to := sdk.AccAddress(secp256k1.GenPrivKey().PubKey().Address())
	ov, _ := sdk.NewIntFromString("5333333333333333346")
	start := int64(1700000000)
	length := int64(1000000)
	base := authtypes.NewBaseAccountWithAddress(from)
	cva := vestingtypes.NewContinuousVestingAccountRaw(vestingtypes.NewBaseVestingAccount(base, sdk.NewCoins(sdk.NewCoin(denom, ov)), start+length), start)
	app.AccountKeeper.SetAccount(ctx, app.AccountKeeper.NewAccount(ctx, cva))
	th.BankUtils.AddCoinsToAccount(sdk.NewCoins(sdk.NewCoin(denom, ov)), from)
	ctx = ctx.WithBlockTime(time.Unix(start+length/4, 0))
	acc := app.AccountKeeper.GetAccount(ctx, from).(*vestingtypes.ContinuousVestingAccount)
	before := acc.LockedCoins(ctx.BlockTime()).AmountOf(denom)
	ms := keeper.NewMsgServerImpl(app.CfevestingKeeper)
	_, err := ms.SplitVesting(sdk.WrapSDKContext(ctx), &types.MsgSplitVesting{FromAddress: from.String(), ToAddress: to.String(), Amount: sdk.NewCoins(sdk.NewCoin(denom, sdk.NewInt(3)))})
	if err != nil {
		t.Fatal(err)
	}
	acc2 := app.AccountKeeper.GetAccount(ctx, from).(*vestingtypes.ContinuousVestingAccount)
	after := acc2.LockedCoins(ctx.BlockTime()).AmountOf(denom)
	fmt.Println("locked before", before, "after", after, "released", before.Sub(after))
	if !before.Sub(after).Equal(sdk.NewInt(3)) {
		t.Fatalf("split of 3 released %s", before.Sub(after))
	}
}
