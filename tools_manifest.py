#!/usr/bin/env python3
"""tools_manifest.py add <ID> <level_text> <level_note> <technique> [design_ref]  — register / update a check in MANIFEST.json"""
import json, sys
m = json.load(open('/verif/MANIFEST.json'))
cmd = sys.argv[1]
if cmd == 'add':
    pid, text, note, tech = sys.argv[2:6]
    ref = sys.argv[6] if len(sys.argv) > 6 else 'DESIGN.md section 6'
    m['checks'] = [c for c in m['checks'] if c['property_id'] != pid]
    m['checks'].append({"property_id": pid, "quick_cmd": "./check %s quick" % pid, "thorough_cmd": "./check %s thorough" % pid,
        "evidence_file": "/verif/evidence/%s.json" % pid, "replay_cmd_template": "./check %s --replay {path}" % pid, "engine": "symgo",
        "level_claimed": {"category": "model_checking", "text": text, "design_ref": ref}, "level_note": note, "technique": tech})
    m['checks'].sort(key=lambda c: c['property_id'])
    m['not_applicable'] = [n for n in m.get('not_applicable', []) if n['property_id'] != pid]
    for e in m['engines']:
        if pid not in e['serves_properties']:
            e['serves_properties'].append(pid); e['serves_properties'].sort()
elif cmd == 'na':
    pid, reason = sys.argv[2:4]
    m['checks'] = [c for c in m['checks'] if c['property_id'] != pid]
    m['not_applicable'] = [n for n in m.get('not_applicable', []) if n['property_id'] != pid] + [{"property_id": pid, "reason": reason}]
    m['not_applicable'].sort(key=lambda c: c['property_id'])
json.dump(m, open('/verif/MANIFEST.json', 'w'), indent=1)
