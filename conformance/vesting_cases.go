package verifpkg

// Environment-level conformance for x/cfevesting: concrete message scenarios run against the REAL application (bank, auth,
// IAVL store, amino/proto codec of cosmos-sdk v0.46.10, through the test app) and against the engine's Go models of store, codec,
// bank and auth. Every observable (error / success, pool fields, balances, bank locked coins, vesting-account schedule) must agree.

import (
	"cosmossdk.io/math"
)

type verifVestEnv interface {
	Addr(i int) string
	SetTime(unix int64)
	Fund(addr string, amt int64)
	SetVestingType(name string, lockupSec, vestingSec int64, freePermille int64)
	CreatePool(owner, name string, amt int64, durSec int64, vtype string) bool
	WithdrawAll(owner string) (math.Int, bool)
	SendToNew(owner, to, pool string, amt int64, restart bool) bool
	CreateVestingAccount(from, to string, amt int64, start, end int64) bool
	Split(from, to string, amt int64) bool
	MoveAll(from, to string) bool
	Bal(addr string) math.Int
	ModuleBal() math.Int
	Locked(addr string) math.Int
	Pool(owner string, i int) (il, w, s math.Int, lockStart, lockEnd int64, ok bool)
	VestAcc(addr string) (ov math.Int, start, end int64, ok bool)
}

func verifVestObserve(s verifConfSink, e verifVestEnv, tag string, naddr int) {
	for i := 0; i < naddr; i++ {
		a := e.Addr(i)
		n := tag + "/addr" + verifIdx[i]
		s.Int(n+"/bal", e.Bal(a))
		s.Int(n+"/locked", e.Locked(a))
		ov, st, en, ok := e.VestAcc(a)
		s.Bool(n+"/isVesting", ok)
		if ok {
			s.Int(n+"/ov", ov)
			s.I64(n+"/start", st)
			s.I64(n+"/end", en)
		}
		for p := 0; p < 3; p++ {
			il, w, sent, ls, le, ok := e.Pool(a, p)
			if !ok {
				continue
			}
			m := n + "/pool" + verifIdx[p]
			s.Int(m+"/il", il)
			s.Int(m+"/withdrawn", w)
			s.Int(m+"/sent", sent)
			s.I64(m+"/lockStart", ls)
			s.I64(m+"/lockEnd", le)
		}
	}
	s.Int(tag+"/module", e.ModuleBal())
}

var verifIdx = []string{"0", "1", "2", "3", "4", "5", "6", "7", "8", "9", "10", "11", "12", "13", "14", "15"}

func verifVestCases(s verifConfSink, e verifVestEnv) {
	const t0 = int64(1700000000)
	owner, a1, a2, a3, a4 := e.Addr(0), e.Addr(1), e.Addr(2), e.Addr(3), e.Addr(4)
	e.SetTime(t0)
	e.SetVestingType("t1", 1000, 4000, 0)
	e.SetVestingType("t2", 0, 10000, 250)
	e.Fund(owner, 1000000)
	verifVestObserve(s, e, "s0", 5)
	// pools: success, duplicate name, unknown type, more than the balance
	s.Bool("createPool/p1", e.CreatePool(owner, "p1", 100000, 5000, "t1"))
	s.Bool("createPool/dup", e.CreatePool(owner, "p1", 5, 5000, "t1"))
	s.Bool("createPool/badType", e.CreatePool(owner, "px", 5, 5000, "nope"))
	s.Bool("createPool/tooMuch", e.CreatePool(owner, "py", 2000000, 5000, "t1"))
	s.Bool("createPool/p2", e.CreatePool(owner, "p2", 300000, 100, "t2"))
	verifVestObserve(s, e, "s1", 5)
	// withdraw before any lock end, then after p2's
	w, ok := e.WithdrawAll(owner)
	s.Bool("withdraw0/ok", ok)
	s.Int("withdraw0/amount", w)
	// sends out of pools: restart and not, too much, unknown pool, to an existing account
	s.Bool("send/p1/restart", e.SendToNew(owner, a1, "p1", 40000, true))
	s.Bool("send/p2/norestart", e.SendToNew(owner, a2, "p2", 100001, false))
	s.Bool("send/p1/tooMuch", e.SendToNew(owner, a3, "p1", 60001, true))
	s.Bool("send/unknownPool", e.SendToNew(owner, a3, "zz", 1, true))
	s.Bool("send/existingAccount", e.SendToNew(owner, a1, "p1", 1, true))
	verifVestObserve(s, e, "s2", 5)
	e.SetTime(t0 + 100)
	w, ok = e.WithdrawAll(owner)
	s.Bool("withdraw1/ok", ok)
	s.Int("withdraw1/amount", w)
	verifVestObserve(s, e, "s3", 5)
	// direct vesting account, then locked coins over time (the bank's view)
	s.Bool("createVA", e.CreateVestingAccount(owner, a3, 77777, t0+1000, t0+9000))
	s.Bool("createVA/existing", e.CreateVestingAccount(owner, a3, 5, t0+1000, t0+9000))
	s.Bool("createVA/badTimes", e.CreateVestingAccount(owner, a4, 5, t0+9000, t0+1000))
	for i, dt := range []int64{100, 1000, 1001, 3000, 5000, 8999, 9000, 20000} {
		e.SetTime(t0 + dt)
		verifVestObserve(s, e, "time"+verifIdx[i], 5)
	}
	// split / move out of the vesting accounts at a time inside their schedules
	e.SetTime(t0 + 3000)
	s.Bool("split/a3->a4", e.Split(a3, a4, 11111))
	s.Bool("split/tooMuch", e.Split(a3, e.Addr(5), 70000))
	s.Bool("split/fromPlain", e.Split(owner, e.Addr(5), 1))
	verifVestObserve(s, e, "s4", 6)
	s.Bool("move/a1->a5", e.MoveAll(a1, e.Addr(5)))
	verifVestObserve(s, e, "s5", 6)
	e.SetTime(t0 + 7000)
	verifVestObserve(s, e, "s6", 6)
	e.SetTime(t0 + 30000)
	w, ok = e.WithdrawAll(owner)
	s.Bool("withdraw2/ok", ok)
	s.Int("withdraw2/amount", w)
	verifVestObserve(s, e, "s7", 6)
}
