package verifpkg

import (
	"testing"

	"github.com/tendermint/tendermint/libs/log"
)

func TestVerifConformance(t *testing.T) {
	verifConfCases(verifNativeSink{}, log.NewNopLogger())
}
