package verifpkg

import (
	"testing"
	"time"

	"cosmossdk.io/math"
	appparams "github.com/chain4energy/c4e-chain/app/params"
	testapp "github.com/chain4energy/c4e-chain/testutil/app"
	"github.com/chain4energy/c4e-chain/x/cfeminter"
	"github.com/chain4energy/c4e-chain/x/cfeminter/types"
	cfedistributortypes "github.com/chain4energy/c4e-chain/x/cfedistributor/types"
	sdk "github.com/cosmos/cosmos-sdk/types"
)

type verifMintNativeEnv struct {
	t   *testing.T
	th  *testapp.TestHelper
	ctx sdk.Context
}

func (e *verifMintNativeEnv) Install(p types.Params, st types.MinterState) bool {
	e.th = testapp.SetupTestApp(e.t)
	e.ctx = e.th.Context.WithBlockTime(st.LastMintBlockTime)
	if err := e.th.App.CfeminterKeeper.SetParams(e.ctx, p); err != nil {
		return false
	}
	e.th.App.CfeminterKeeper.SetMinterState(e.ctx, st)
	return true
}
func (e *verifMintNativeEnv) UpdateParams(p types.Params) bool {
	cctx, write := e.ctx.CacheContext()
	if err := e.th.App.CfeminterKeeper.UpdateParams(cctx, appparams.GetAuthority(), p); err != nil {
		return false
	}
	write()
	return true
}
func (e *verifMintNativeEnv) Block(t time.Time) {
	e.ctx = e.ctx.WithBlockTime(t)
	cfeminter.BeginBlocker(e.ctx, e.th.App.CfeminterKeeper)
}
func (e *verifMintNativeEnv) State() types.MinterState { return e.th.App.CfeminterKeeper.GetMinterState(e.ctx) }
func (e *verifMintNativeEnv) History(id uint32) (math.Int, bool) {
	h, found := e.th.App.CfeminterKeeper.GetMinterStateHistory(e.ctx, id)
	if !found {
		return sdk.ZeroInt(), false
	}
	return h.AmountMinted, true
}
func (e *verifMintNativeEnv) Supply() math.Int { return e.th.App.BankKeeper.GetSupply(e.ctx, "uc4e").Amount }
func (e *verifMintNativeEnv) Collector() math.Int {
	return e.th.App.BankKeeper.GetBalance(e.ctx, e.th.App.AccountKeeper.GetModuleAddress(cfedistributortypes.DistributorMainAccount), "uc4e").Amount
}
func (e *verifMintNativeEnv) Inflation() (sdk.Dec, bool) {
	d, err := e.th.App.CfeminterKeeper.GetCurrentInflation(e.ctx)
	return d, err == nil
}

func TestVerifConformance(t *testing.T) {
	verifMintCases(verifNativeSink{}, &verifMintNativeEnv{t: t})
}
