package verifpkg

import (
	"time"

	"cosmossdk.io/math"
	"github.com/chain4energy/c4e-chain/x/cfeminter/keeper"
	"github.com/chain4energy/c4e-chain/x/cfeminter/types"
	sdk "github.com/cosmos/cosmos-sdk/types"
)

type verifMintSymEnv struct {
	k   keeper.Keeper
	ctx sdk.Context
}

func (e *verifMintSymEnv) Install(p types.Params, st types.MinterState) bool {
	*e = verifMintSymEnv{k: verifMinterModuleKeeper(), ctx: verifCtx(st.LastMintBlockTime)}
	W.bank.fund(verifModuleAddr("holders"), "uc4e", sdk.NewInt(40000000000000))
	if err := e.k.SetParams(e.ctx, p); err != nil {
		return false
	}
	e.k.SetMinterState(e.ctx, st)
	return true
}
func (e *verifMintSymEnv) UpdateParams(p types.Params) bool {
	return e.k.UpdateParams(e.ctx, "gov", p) == nil
}
func (e *verifMintSymEnv) Block(t time.Time) {
	e.ctx = verifCtx(t)
	BeginBlocker(e.ctx, e.k)
}
func (e *verifMintSymEnv) State() types.MinterState { return e.k.GetMinterState(e.ctx) }
func (e *verifMintSymEnv) History(id uint32) (math.Int, bool) {
	h, found := e.k.GetMinterStateHistory(e.ctx, id)
	if !found {
		return sdk.ZeroInt(), false
	}
	return h.AmountMinted, true
}
func (e *verifMintSymEnv) Supply() math.Int { return W.bank.supplyOf("uc4e") }
func (e *verifMintSymEnv) Collector() math.Int {
	return W.bank.balance(verifAddrKey(verifModuleAddr(verifCollector)), "uc4e")
}
func (e *verifMintSymEnv) Inflation() (sdk.Dec, bool) {
	d, err := e.k.GetCurrentInflation(e.ctx)
	return d, err == nil
}

func Verif_CONF_run() {
	verifMintCases(verifSymSink{}, &verifMintSymEnv{})
	verif_reach("conformance cases emitted")
}
