package verifpkg

func Verif_CONF_run() {
	verifNewWorld()
	verifConfCases(verifSymSink{}, verifLogger{})
	verif_reach("conformance cases emitted")
}
