package verifpkg

import (
	"testing"

	"cosmossdk.io/math"
	testapp "github.com/chain4energy/c4e-chain/testutil/app"
	"github.com/chain4energy/c4e-chain/x/cfedistributor"
	"github.com/chain4energy/c4e-chain/x/cfedistributor/types"
	cfemintertypes "github.com/chain4energy/c4e-chain/x/cfeminter/types"
	sdk "github.com/cosmos/cosmos-sdk/types"
)

type verifDistNativeEnv struct {
	t   *testing.T
	th  *testapp.TestHelper
	ctx sdk.Context
}

func (e *verifDistNativeEnv) Addr(i int) string {
	return sdk.AccAddress([]byte("verif_conf_address_" + string(rune('0'+i)))).String()
}
func (e *verifDistNativeEnv) acc(s string) sdk.AccAddress {
	a, err := sdk.AccAddressFromBech32(s)
	if err != nil {
		e.t.Fatal(err)
	}
	return a
}
func (e *verifDistNativeEnv) SetParams(p types.Params) bool {
	return e.th.App.CfedistributorKeeper.SetParams(e.ctx, p) == nil
}
func (e *verifDistNativeEnv) mint(amt string) sdk.Coins {
	v, ok := sdk.NewIntFromString(amt)
	if !ok {
		e.t.Fatal("bad integer literal " + amt)
	}
	coins := sdk.NewCoins(sdk.NewCoin("uc4e", v))
	if v.IsZero() {
		return coins
	}
	if err := e.th.App.BankKeeper.MintCoins(e.ctx, cfemintertypes.ModuleName, coins); err != nil {
		e.t.Fatal(err)
	}
	return coins
}
func (e *verifDistNativeEnv) FundModule(name string, amt string) {
	coins := e.mint(amt)
	if coins.IsZero() {
		return
	}
	if err := e.th.App.BankKeeper.SendCoinsFromModuleToModule(e.ctx, cfemintertypes.ModuleName, name, coins); err != nil {
		e.t.Fatal(err)
	}
}
func (e *verifDistNativeEnv) FundAddr(addr string, amt string) {
	coins := e.mint(amt)
	if coins.IsZero() {
		return
	}
	if err := e.th.App.BankKeeper.SendCoinsFromModuleToAccount(e.ctx, cfemintertypes.ModuleName, e.acc(addr), coins); err != nil {
		e.t.Fatal(err)
	}
}
func (e *verifDistNativeEnv) BeginBlock() { cfedistributor.BeginBlocker(e.ctx, e.th.App.CfedistributorKeeper) }
func (e *verifDistNativeEnv) States() []types.State {
	return e.th.App.CfedistributorKeeper.GetAllStates(e.ctx)
}
func (e *verifDistNativeEnv) BalModule(name string) math.Int {
	return e.th.App.BankKeeper.GetBalance(e.ctx, e.th.App.AccountKeeper.GetModuleAddress(name), "uc4e").Amount
}
func (e *verifDistNativeEnv) BalAddr(addr string) math.Int {
	return e.th.App.BankKeeper.GetBalance(e.ctx, e.acc(addr), "uc4e").Amount
}
func (e *verifDistNativeEnv) Supply() math.Int { return e.th.App.BankKeeper.GetSupply(e.ctx, "uc4e").Amount }

func TestVerifConformance(t *testing.T) {
	th := testapp.SetupTestApp(t)
	e := &verifDistNativeEnv{t: t, th: th, ctx: th.Context}
	verifDistCases(verifNativeSink{}, e)
}
