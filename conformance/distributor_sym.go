package verifpkg

import (
	"time"

	"cosmossdk.io/math"
	"github.com/chain4energy/c4e-chain/x/cfedistributor/types"
	sdk "github.com/cosmos/cosmos-sdk/types"
)

type verifDistSymEnv struct {
	k   Keeper
	ctx sdk.Context
}

var verifDistAddrs = []string{"c4e:conf0", "c4e:conf1", "c4e:conf2"}

func (e *verifDistSymEnv) Addr(i int) string { return verifDistAddrs[i] }
func (e *verifDistSymEnv) SetParams(p types.Params) bool {
	return e.k.SetParams(e.ctx, p) == nil
}
func verifConfInt(s string) math.Int {
	v, ok := sdk.NewIntFromString(s)
	if !ok {
		panic("bad integer literal " + s)
	}
	return v
}
func (e *verifDistSymEnv) FundModule(name string, amt string) {
	W.bank.fund(verifModuleAddr(name), dDenom, verifConfInt(amt))
}
func (e *verifDistSymEnv) FundAddr(addr string, amt string) {
	W.bank.fund(verifAddr(addr), dDenom, verifConfInt(amt))
}
func (e *verifDistSymEnv) BeginBlock()             { BeginBlocker(e.ctx, e.k) }
func (e *verifDistSymEnv) States() []types.State   { return e.k.GetAllStates(e.ctx) }
func (e *verifDistSymEnv) BalModule(name string) math.Int {
	return W.bank.balance(verifAddrKey(verifModuleAddr(name)), dDenom)
}
func (e *verifDistSymEnv) BalAddr(addr string) math.Int {
	return W.bank.balance(verifAddrKey(verifAddr(addr)), dDenom)
}
func (e *verifDistSymEnv) Supply() math.Int { return W.bank.supplyOf(dDenom) }

func Verif_CONF_run() {
	k := verifDistKeeper()
	e := &verifDistSymEnv{k: k, ctx: verifCtx(time.Unix(1700000000, 0))}
	verifDistCases(verifSymSink{}, e)
	verif_reach("conformance cases emitted")
}
