package verifpkg

// Environment-level conformance for x/cfedistributor: concrete configurations and inflows, several blocks of the REAL BeginBlocker
// against the real bank / auth / IAVL store / codec (test app) and against the engine's models. Observed: every state's leftovers,
// every account balance, the supply delta.

import (
	"cosmossdk.io/math"
	"github.com/chain4energy/c4e-chain/x/cfedistributor/types"
	sdk "github.com/cosmos/cosmos-sdk/types"
)

type verifDistEnv interface {
	Addr(i int) string
	SetParams(p types.Params) bool
	FundModule(name string, amt string)
	FundAddr(addr string, amt string)
	BeginBlock()
	States() []types.State
	BalModule(name string) math.Int
	BalAddr(addr string) math.Int
	Supply() math.Int
}

var verifIdx = []string{"0", "1", "2", "3", "4", "5", "6", "7", "8", "9", "10", "11", "12", "13", "14", "15"}

var verifDistModules = []string{types.DistributorMainAccount, types.ValidatorsRewardsCollector, types.GovernanceBoosterCollector, types.GreenEnergyBoosterCollector}

func verifDistObserve(s verifConfSink, e verifDistEnv, tag string, supply0 math.Int) {
	for i, m := range verifDistModules {
		s.Int(tag+"/module"+verifIdx[i], e.BalModule(m))
	}
	for i := 0; i < 3; i++ {
		s.Int(tag+"/addr"+verifIdx[i], e.BalAddr(e.Addr(i)))
	}
	s.Int(tag+"/supplyDelta", e.Supply().Sub(supply0))
	states := e.States()
	s.I64(tag+"/nstates", int64(len(states)))
	for _, st := range states {
		name := "burn"
		if !st.Burn {
			name = st.Account.Type + ":" + st.Account.Id
			for i := 0; i < 3; i++ {
				if st.Account.Id == e.Addr(i) {
					name = st.Account.Type + ":addr" + verifIdx[i]
				}
			}
		}
		s.Dec(tag+"/remains/"+name, st.Remains.AmountOf("uc4e"))
	}
}

func verifDistCases(s verifConfSink, e verifDistEnv) {
	cfgA := types.Params{SubDistributors: []types.SubDistributor{
		{Name: "first", Sources: []*types.Account{{Type: types.Main}},
			Destinations: types.Destinations{PrimaryShare: types.Account{Type: types.ModuleAccount, Id: types.ValidatorsRewardsCollector},
				BurnShare: sdk.MustNewDecFromStr("0.1"), Shares: []*types.DestinationShare{
					{Name: "toBase", Share: sdk.MustNewDecFromStr("0.25"), Destination: types.Account{Type: types.BaseAccount, Id: e.Addr(0)}},
					{Name: "toInternal", Share: sdk.MustNewDecFromStr("0.15"), Destination: types.Account{Type: types.InternalAccount, Id: "int1"}}}}},
		{Name: "second", Sources: []*types.Account{{Type: types.InternalAccount, Id: "int1"}, {Type: types.BaseAccount, Id: e.Addr(1)}},
			Destinations: types.Destinations{PrimaryShare: types.Account{Type: types.ModuleAccount, Id: types.GovernanceBoosterCollector},
				BurnShare: sdk.MustNewDecFromStr("0.05"), Shares: []*types.DestinationShare{
					{Name: "third", Share: sdk.MustNewDecFromStr("0.333333333333333333"), Destination: types.Account{Type: types.ModuleAccount, Id: types.GreenEnergyBoosterCollector}}}}},
	}}
	cfgB := types.Params{SubDistributors: []types.SubDistributor{
		{Name: "only", Sources: []*types.Account{{Type: types.Main}, {Type: types.ModuleAccount, Id: types.GreenEnergyBoosterCollector}},
			Destinations: types.Destinations{PrimaryShare: types.Account{Type: types.BaseAccount, Id: e.Addr(2)},
				BurnShare: sdk.MustNewDecFromStr("0.999999999999999999")}},
	}}
	bad := types.Params{SubDistributors: []types.SubDistributor{
		{Name: "x", Sources: []*types.Account{{Type: types.InternalAccount, Id: "nobody"}},
			Destinations: types.Destinations{PrimaryShare: types.Account{Type: types.ModuleAccount, Id: types.ValidatorsRewardsCollector}, BurnShare: sdk.ZeroDec()}}}}
	supply0 := e.Supply()
	s.Bool("setParams/A", e.SetParams(cfgA))
	s.Bool("setParams/bad", e.SetParams(bad))
	verifDistObserve(s, e, "b0", supply0)
	inflows := []string{"1001", "3", "0", "1000000000000000007", "1", "999"}
	side := []string{"777", "0", "5", "0", "123456789", "1"}
	for i := range inflows {
		e.FundModule(types.DistributorMainAccount, inflows[i])
		e.FundAddr(e.Addr(1), side[i])
		e.BeginBlock()
		verifDistObserve(s, e, "a"+verifIdx[i], supply0)
	}
	s.Bool("setParams/B", e.SetParams(cfgB))
	for i := range inflows {
		e.FundModule(types.DistributorMainAccount, inflows[i])
		e.FundModule(types.GreenEnergyBoosterCollector, side[i])
		e.BeginBlock()
		verifDistObserve(s, e, "b"+verifIdx[i+1], supply0)
	}
}
