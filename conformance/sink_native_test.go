package verifpkg

import (
	"fmt"
	"strconv"

	"cosmossdk.io/math"
	sdk "github.com/cosmos/cosmos-sdk/types"
)

type verifNativeSink struct{}

func (verifNativeSink) Int(name string, v math.Int) {
	if v.IsNil() {
		fmt.Printf("CONF\t%s\tnil\n", name)
		return
	}
	fmt.Printf("CONF\t%s\t%s\n", name, v.String())
}
func (verifNativeSink) Dec(name string, v sdk.Dec) {
	if v.IsNil() {
		fmt.Printf("CONF\t%s\tnil\n", name)
		return
	}
	fmt.Printf("CONF\t%s\t%s\n", name, v.BigInt().String())
}
func (verifNativeSink) I64(name string, v int64)  { fmt.Printf("CONF\t%s\t%d\n", name, v) }
func (verifNativeSink) Bool(name string, v bool)  { fmt.Printf("CONF\t%s\t%v\n", name, v) }
func (verifNativeSink) Str(name string, v string) { fmt.Printf("CONF\t%s\t%s\n", name, strconv.Quote(v)) }

