package verifpkg

// Conformance cases for x/cfeminter/types: the emission kernels and the sdk.Dec / math.Int operations they are built from.
// Inputs: the literals of x/cfeminter/types/minter_test.go (1000000 over 345600000 s, quarter / half / three-quarter points,
// 10 ms before the start and after the end) plus boundary values (zero, one, mainnet-scale and 10^36 amounts, one-second and
// four-year periods, step boundaries, multipliers 0, 1/2, 1 - 10^-18 and 1).

import (
	"time"

	codectypes "github.com/cosmos/cosmos-sdk/codec/types"
	sdk "github.com/cosmos/cosmos-sdk/types"
	"github.com/tendermint/tendermint/libs/log"
)

var verifIdx = []string{"0", "1", "2", "3", "4", "5", "6", "7", "8", "9", "10", "11", "12", "13", "14", "15"}

func verifConfCases(s verifConfSink, lg log.Logger) {
	start := time.Unix(1643846400, 0).UTC() // 2022-02-03
	amounts := []string{"0", "1", "1000000", "40000000000000", "999999999999999999999999999999999999"}
	periods := []time.Duration{time.Second, 345600000 * time.Second, 4 * 365 * 24 * time.Hour}
	supplies := []string{"0", "1", "1000000", "40000000000000"}
	// ---- linear
	for ai, a := range amounts {
		amt, _ := sdk.NewIntFromString(a)
		for pi, per := range periods {
			end := start.Add(per)
			cfg, _ := codectypes.NewAnyWithValue(&LinearMinting{Amount: amt})
			m := Minter{SequenceId: 1, EndTime: &end, Config: cfg}
			offs := []time.Duration{-10 * time.Millisecond, 0, time.Millisecond, per / 4, per / 2, per / 4 * 3, per - 1, per, per + 10*time.Millisecond}
			for oi, off := range offs {
				name := "lin/" + verifIdx[ai] + "/" + verifIdx[pi] + "/" + verifIdx[oi]
				t := start.Add(off)
				s.Dec(name+"/amount", m.AmountToMint(lg, start, t))
				for si, sup := range supplies {
					supply, _ := sdk.NewIntFromString(sup)
					s.Dec(name+"/infl/"+verifIdx[si], m.CalculateInflation(supply, start, t))
				}
			}
		}
	}
	// ---- exponential step
	mults := []string{"0", "0.5", "0.999999999999999999", "1"}
	steps := []time.Duration{time.Second, 4 * 365 * 24 * time.Hour}
	for ai, a := range amounts {
		amt, _ := sdk.NewIntFromString(a)
		for mi, ms := range mults {
			mult := sdk.MustNewDecFromStr(ms)
			for ti, step := range steps {
				cfg, _ := codectypes.NewAnyWithValue(&ExponentialStepMinting{Amount: amt, AmountMultiplier: mult, StepDuration: step})
				end := start.Add(5 * step / 2)
				withEnd := Minter{SequenceId: 1, EndTime: &end, Config: cfg}
				noEnd := Minter{SequenceId: 1, Config: cfg}
				offs := []time.Duration{-10 * time.Millisecond, 0, 1, step / 3, step - 1, step, step + 1, 2 * step, 5 * step / 2, 3*step + step/7, 5 * step}
				for oi, off := range offs {
					name := "exp/" + verifIdx[ai] + "/" + verifIdx[mi] + "/" + verifIdx[ti] + "/" + verifIdx[oi]
					t := start.Add(off)
					s.Dec(name+"/amountEnd", withEnd.AmountToMint(lg, start, t))
					s.Dec(name+"/amountNoEnd", noEnd.AmountToMint(lg, start, t))
					supply, _ := sdk.NewIntFromString("40000000000000")
					s.Dec(name+"/inflEnd", withEnd.CalculateInflation(supply, start, t))
					s.Dec(name+"/inflNoEnd", noEnd.CalculateInflation(supply, start, t))
				}
			}
		}
	}
	// ---- the decimal / integer operations used by the custom modules, on sign and rounding boundaries
	decs := []string{"0", "0.000000000000000001", "0.5", "0.499999999999999999", "1.5", "2.5", "-0.5", "-1.5", "-0.000000000000000001",
		"123456789.987654321987654321", "-123456789.987654321987654321", "0.333333333333333333", "0.666666666666666667", "1000000000000000000000000000000"}
	for i, xs := range decs {
		x := sdk.MustNewDecFromStr(xs)
		n := "dec/" + verifIdx[i]
		s.Int(n+"/TruncateInt", x.TruncateInt())
		s.Int(n+"/RoundInt", x.RoundInt())
		s.Dec(n+"/TruncateDec", x.TruncateDec())
		s.Dec(n+"/Ceil", x.Ceil())
		s.Dec(n+"/Neg", x.Neg())
		s.Dec(n+"/Abs", x.Abs())
		s.Bool(n+"/IsNegative", x.IsNegative())
		s.Bool(n+"/IsPositive", x.IsPositive())
		s.Bool(n+"/IsZero", x.IsZero())
		s.Bool(n+"/IsInteger", x.IsInteger())
		s.Dec(n+"/MulInt64", x.MulInt64(-7))
		s.Dec(n+"/QuoInt64", x.QuoInt64(7))
		s.Dec(n+"/QuoInt64neg", x.QuoInt64(-3))
		for j, ys := range decs {
			y := sdk.MustNewDecFromStr(ys)
			m := n + "/" + verifIdx[j]
			s.Dec(m+"/Add", x.Add(y))
			s.Dec(m+"/Sub", x.Sub(y))
			s.Dec(m+"/Mul", x.Mul(y))
			s.Dec(m+"/MulTruncate", x.MulTruncate(y))
			if !y.IsZero() {
				s.Dec(m+"/Quo", x.Quo(y))
				s.Dec(m+"/QuoTruncate", x.QuoTruncate(y))
			}
			s.Bool(m+"/LT", x.LT(y))
			s.Bool(m+"/GTE", x.GTE(y))
			s.Bool(m+"/Equal", x.Equal(y))
		}
	}
	ints := []string{"0", "1", "-1", "7", "-7", "1000000000000000000", "-999999999999999999999", "1329227995784915872903807060280344576"}
	for i, xs := range ints {
		x, _ := sdk.NewIntFromString(xs)
		n := "int/" + verifIdx[i]
		s.Bool(n+"/IsInt64", x.IsInt64())
		s.Dec(n+"/ToDec", sdk.NewDecFromInt(x))
		s.Int(n+"/MulRaw", x.MulRaw(-3))
		s.Int(n+"/QuoRaw", x.QuoRaw(3))
		s.Int(n+"/QuoRawNeg", x.QuoRaw(-3))
		s.Int(n+"/ModRaw", x.Abs().ModRaw(5))
		for j, ys := range ints {
			y, _ := sdk.NewIntFromString(ys)
			m := n + "/" + verifIdx[j]
			s.Int(m+"/Add", x.Add(y))
			s.Int(m+"/Sub", x.Sub(y))
			s.Int(m+"/Mul", x.Mul(y))
			if !y.IsZero() {
				s.Int(m+"/Quo", x.Quo(y))
			}
			s.Bool(m+"/LT", x.LT(y))
			s.Bool(m+"/GTE", x.GTE(y))
			s.Int(m+"/Min", sdk.MinInt(x, y))
			s.Int(m+"/Max", sdk.MaxInt(x, y))
		}
	}
}
