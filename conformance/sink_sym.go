package verifpkg

import (
	"cosmossdk.io/math"
	sdk "github.com/cosmos/cosmos-sdk/types"
)

type verifSymSink struct{}

func (verifSymSink) Int(name string, v math.Int) { verif_emit(name, v) }
func (verifSymSink) Dec(name string, v sdk.Dec)  { verif_emit(name, v) }
func (verifSymSink) I64(name string, v int64)    { verif_emit(name, v) }
func (verifSymSink) Bool(name string, v bool)    { verif_emit(name, v) }
func (verifSymSink) Str(name string, v string)   { verif_emit(name, v) }

