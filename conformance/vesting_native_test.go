package verifpkg

import (
	"testing"
	"time"

	"cosmossdk.io/math"
	testapp "github.com/chain4energy/c4e-chain/testutil/app"
	cfemintertypes "github.com/chain4energy/c4e-chain/x/cfeminter/types"
	"github.com/chain4energy/c4e-chain/x/cfevesting/keeper"
	"github.com/chain4energy/c4e-chain/x/cfevesting/types"
	sdk "github.com/cosmos/cosmos-sdk/types"
	vestingtypes "github.com/cosmos/cosmos-sdk/x/auth/vesting/types"
)

const vDenomNative = "uc4e"

type verifVestNativeEnv struct {
	t   *testing.T
	th  *testapp.TestHelper
	ctx sdk.Context
}

func (e *verifVestNativeEnv) Addr(i int) string {
	return sdk.AccAddress([]byte("verif_conf_address_" + string(rune('0'+i)))).String()
}
func (e *verifVestNativeEnv) acc(s string) sdk.AccAddress {
	a, err := sdk.AccAddressFromBech32(s)
	if err != nil {
		e.t.Fatal(err)
	}
	return a
}
func (e *verifVestNativeEnv) SetTime(unix int64) { e.ctx = e.ctx.WithBlockTime(time.Unix(unix, 0)) }
func (e *verifVestNativeEnv) Fund(addr string, amt int64) {
	coins := sdk.NewCoins(sdk.NewCoin(vDenomNative, sdk.NewInt(amt)))
	if err := e.th.App.BankKeeper.MintCoins(e.ctx, cfemintertypes.ModuleName, coins); err != nil {
		e.t.Fatal(err)
	}
	if err := e.th.App.BankKeeper.SendCoinsFromModuleToAccount(e.ctx, cfemintertypes.ModuleName, e.acc(addr), coins); err != nil {
		e.t.Fatal(err)
	}
}
func (e *verifVestNativeEnv) SetVestingType(name string, lockupSec, vestingSec int64, freePermille int64) {
	e.th.App.CfevestingKeeper.SetVestingType(e.ctx, types.VestingType{Name: name, LockupPeriod: time.Duration(lockupSec) * time.Second,
		VestingPeriod: time.Duration(vestingSec) * time.Second, Free: sdk.NewDecWithPrec(freePermille, 3)})
}
func (e *verifVestNativeEnv) srv() types.MsgServer {
	return keeper.NewMsgServerImpl(e.th.App.CfevestingKeeper)
}

// every message runs on a cache context that is written back only on success, as baseapp does for a delivered transaction
func (e *verifVestNativeEnv) deliver(f func(ctx sdk.Context) error) bool {
	cctx, write := e.ctx.CacheContext()
	if err := f(cctx); err != nil {
		return false
	}
	write()
	return true
}
func (e *verifVestNativeEnv) CreatePool(owner, name string, amt int64, durSec int64, vtype string) bool {
	return e.deliver(func(ctx sdk.Context) error {
		_, err := e.srv().CreateVestingPool(sdk.WrapSDKContext(ctx), &types.MsgCreateVestingPool{Owner: owner, Name: name, Amount: sdk.NewInt(amt),
			Duration: time.Duration(durSec) * time.Second, VestingType: vtype})
		return err
	})
}
func (e *verifVestNativeEnv) WithdrawAll(owner string) (math.Int, bool) {
	out := sdk.ZeroInt()
	ok := e.deliver(func(ctx sdk.Context) error {
		r, err := e.srv().WithdrawAllAvailable(sdk.WrapSDKContext(ctx), &types.MsgWithdrawAllAvailable{Owner: owner})
		if err == nil {
			out = r.Withdrawn.Amount
		}
		return err
	})
	return out, ok
}
func (e *verifVestNativeEnv) SendToNew(owner, to, pool string, amt int64, restart bool) bool {
	return e.deliver(func(ctx sdk.Context) error {
		_, err := e.srv().SendToVestingAccount(sdk.WrapSDKContext(ctx), &types.MsgSendToVestingAccount{Owner: owner, ToAddress: to, VestingPoolName: pool,
			Amount: sdk.NewInt(amt), RestartVesting: restart})
		return err
	})
}
func (e *verifVestNativeEnv) CreateVestingAccount(from, to string, amt int64, start, end int64) bool {
	return e.deliver(func(ctx sdk.Context) error {
		_, err := e.srv().CreateVestingAccount(sdk.WrapSDKContext(ctx), &types.MsgCreateVestingAccount{FromAddress: from, ToAddress: to,
			Amount: sdk.NewCoins(sdk.NewCoin(vDenomNative, sdk.NewInt(amt))), StartTime: start, EndTime: end})
		return err
	})
}
func (e *verifVestNativeEnv) Split(from, to string, amt int64) bool {
	return e.deliver(func(ctx sdk.Context) error {
		_, err := e.srv().SplitVesting(sdk.WrapSDKContext(ctx), &types.MsgSplitVesting{FromAddress: from, ToAddress: to,
			Amount: sdk.NewCoins(sdk.NewCoin(vDenomNative, sdk.NewInt(amt)))})
		return err
	})
}
func (e *verifVestNativeEnv) MoveAll(from, to string) bool {
	return e.deliver(func(ctx sdk.Context) error {
		_, err := e.srv().MoveAvailableVesting(sdk.WrapSDKContext(ctx), &types.MsgMoveAvailableVesting{FromAddress: from, ToAddress: to})
		return err
	})
}
func (e *verifVestNativeEnv) Bal(addr string) math.Int {
	return e.th.App.BankKeeper.GetBalance(e.ctx, e.acc(addr), vDenomNative).Amount
}
func (e *verifVestNativeEnv) ModuleBal() math.Int {
	return e.th.App.BankKeeper.GetBalance(e.ctx, e.th.App.AccountKeeper.GetModuleAddress(types.ModuleName), vDenomNative).Amount
}
func (e *verifVestNativeEnv) Locked(addr string) math.Int {
	return e.th.App.BankKeeper.LockedCoins(e.ctx, e.acc(addr)).AmountOf(vDenomNative)
}
func (e *verifVestNativeEnv) Pool(owner string, i int) (il, w, s math.Int, lockStart, lockEnd int64, ok bool) {
	avp, found := e.th.App.CfevestingKeeper.GetAccountVestingPools(e.ctx, owner)
	if !found || i >= len(avp.VestingPools) {
		return sdk.ZeroInt(), sdk.ZeroInt(), sdk.ZeroInt(), 0, 0, false
	}
	p := avp.VestingPools[i]
	return p.InitiallyLocked, p.Withdrawn, p.Sent, p.LockStart.Unix(), p.LockEnd.Unix(), true
}
func (e *verifVestNativeEnv) VestAcc(addr string) (ov math.Int, start, end int64, ok bool) {
	acc := e.th.App.AccountKeeper.GetAccount(e.ctx, e.acc(addr))
	va, isV := acc.(*vestingtypes.ContinuousVestingAccount)
	if acc == nil || !isV {
		return sdk.ZeroInt(), 0, 0, false
	}
	return va.OriginalVesting.AmountOf(vDenomNative), va.StartTime, va.EndTime, true
}

func TestVerifConformance(t *testing.T) {
	th := testapp.SetupTestApp(t)
	e := &verifVestNativeEnv{t: t, th: th, ctx: th.Context.WithBlockTime(time.Unix(1700000000, 0))}
	if err := th.App.CfevestingKeeper.SetParams(e.ctx, types.Params{Denom: vDenomNative}); err != nil {
		t.Fatal(err)
	}
	verifVestCases(verifNativeSink{}, e)
}
