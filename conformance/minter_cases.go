package verifpkg

// Environment-level conformance for x/cfeminter: concrete schedules and block-time sequences through the REAL BeginBlocker against
// the real bank / store / codec (test app) and against the engine's models. Observed after every block: minter state, state history,
// supply delta, collector balance, reported inflation.

import (
	"time"

	"cosmossdk.io/math"
	"github.com/chain4energy/c4e-chain/x/cfeminter/types"
	codectypes "github.com/cosmos/cosmos-sdk/codec/types"
	sdk "github.com/cosmos/cosmos-sdk/types"
)

type verifMintEnv interface {
	Install(p types.Params, st types.MinterState) bool
	UpdateParams(p types.Params) bool
	Block(t time.Time)
	State() types.MinterState
	History(id uint32) (math.Int, bool)
	Supply() math.Int
	Collector() math.Int
	Inflation() (sdk.Dec, bool)
}

var verifIdx = []string{"0", "1", "2", "3", "4", "5", "6", "7", "8", "9", "10", "11", "12", "13", "14", "15", "16", "17", "18", "19"}

func verifMintAny(m types.MinterConfigI) *codectypes.Any {
	a, err := codectypes.NewAnyWithValue(m)
	if err != nil {
		panic(err)
	}
	return a
}

func verifMintObserve(s verifConfSink, e verifMintEnv, tag string, supply0, coll0 math.Int, ids []uint32) {
	st := e.State()
	s.I64(tag+"/seq", int64(st.SequenceId))
	s.Int(tag+"/minted", st.AmountMinted)
	s.Dec(tag+"/remainderToMint", st.RemainderToMint)
	s.Dec(tag+"/carry", st.RemainderFromPreviousMinter)
	s.I64(tag+"/lastMint", st.LastMintBlockTime.UnixNano())
	s.Int(tag+"/supplyDelta", e.Supply().Sub(supply0))
	s.Int(tag+"/collectorDelta", e.Collector().Sub(coll0))
	inf, ok := e.Inflation()
	s.Bool(tag+"/inflationOk", ok)
	if ok {
		s.Bool(tag+"/inflationIsZero", inf.IsZero()) // (the value depends on the total supply, which differs between the test app and the model world)
	}
	for i, id := range ids {
		h, found := e.History(id)
		s.Bool(tag+"/history"+verifIdx[i]+"/found", found)
		if found {
			s.Int(tag+"/history"+verifIdx[i]+"/minted", h)
		}
	}
}

func verifMintCases(s verifConfSink, e verifMintEnv) {
	start := time.Unix(1700000000, 0).UTC()
	run := func(tag string, first uint32, offs []time.Duration) {
		end1 := start.Add(1000 * time.Second)
		end2 := start.Add(1000*time.Second + 7777*time.Millisecond)
		end3 := start.Add(5000 * time.Second)
		p := types.Params{MintDenom: "uc4e", StartTime: start, Minters: []*types.Minter{
			{SequenceId: first, EndTime: &end1, Config: verifMintAny(&types.LinearMinting{Amount: sdk.NewInt(1000003)})},
			{SequenceId: first + 1, EndTime: &end2, Config: verifMintAny(&types.ExponentialStepMinting{Amount: sdk.NewInt(999), AmountMultiplier: sdk.MustNewDecFromStr("0.5"), StepDuration: 1300 * time.Millisecond})},
			{SequenceId: first + 2, EndTime: &end3, Config: verifMintAny(&types.ExponentialStepMinting{Amount: sdk.NewInt(40000000000000), AmountMultiplier: sdk.MustNewDecFromStr("0.999999999999999999"), StepDuration: 700 * time.Second})},
			{SequenceId: first + 3, Config: verifMintAny(&types.NoMinting{})},
		}}
		st := types.MinterState{SequenceId: first, AmountMinted: sdk.ZeroInt(), RemainderToMint: sdk.ZeroDec(), RemainderFromPreviousMinter: sdk.ZeroDec(), LastMintBlockTime: start.Add(-time.Hour)}
		s.Bool(tag+"/install", e.Install(p, st))
		supply0, coll0 := e.Supply(), e.Collector()
		ids := []uint32{first, first + 1, first + 2, first + 3}
		for i, off := range offs {
			e.Block(start.Add(off))
			verifMintObserve(s, e, tag+"/b"+verifIdx[i], supply0, coll0, ids)
		}
	}
	sec := time.Second
	// fine cadence with blocks on and around the boundaries
	run("fine", 1, []time.Duration{-5 * sec, 0, 1, 333 * sec, 999*sec + 999*time.Millisecond, 1000 * sec, 1000*sec + 1300*time.Millisecond, 1003 * sec,
		1000*sec + 7777*time.Millisecond, 1008 * sec, 1700 * sec, 1708 * sec, 3456 * sec, 4999 * sec, 5000 * sec, 6000 * sec})
	// coarse cadence: jumps over several periods, first id 7
	run("coarse", 7, []time.Duration{500 * sec, 1004 * sec, 4000 * sec, 9000 * sec, 9001 * sec})
	// one jump over everything
	run("jump", 3, []time.Duration{100000 * sec})
	// governance moves the end of the first period while it is running, then into the past of the chain
	{
		end1 := start.Add(1000 * time.Second)
		mk := func(e1 time.Time) types.Params {
			return types.Params{MintDenom: "uc4e", StartTime: start, Minters: []*types.Minter{
				{SequenceId: 1, EndTime: &e1, Config: verifMintAny(&types.LinearMinting{Amount: sdk.NewInt(60000)})},
				{SequenceId: 2, Config: verifMintAny(&types.ExponentialStepMinting{Amount: sdk.NewInt(1000), AmountMultiplier: sdk.MustNewDecFromStr("0.75"), StepDuration: 100 * time.Second})},
			}}
		}
		st := types.MinterState{SequenceId: 1, AmountMinted: sdk.ZeroInt(), RemainderToMint: sdk.ZeroDec(), RemainderFromPreviousMinter: sdk.ZeroDec(), LastMintBlockTime: start}
		s.Bool("gov/install", e.Install(mk(end1), st))
		supply0, coll0 := e.Supply(), e.Collector()
		ids := []uint32{1, 2}
		e.Block(start.Add(400 * sec))
		verifMintObserve(s, e, "gov/b0", supply0, coll0, ids)
		s.Bool("gov/update1", e.UpdateParams(mk(start.Add(2000*sec))))
		e.Block(start.Add(500 * sec))
		verifMintObserve(s, e, "gov/b1", supply0, coll0, ids)
		s.Bool("gov/update2", e.UpdateParams(mk(start.Add(450*sec))))
		e.Block(start.Add(600 * sec))
		verifMintObserve(s, e, "gov/b2", supply0, coll0, ids)
		s.Bool("gov/update3", e.UpdateParams(mk(start.Add(3000*sec)))) // the chain is in period 2 whose start now lies in the future
		e.Block(start.Add(700 * sec))
		verifMintObserve(s, e, "gov/b3", supply0, coll0, ids)
		e.Block(start.Add(3100 * sec))
		verifMintObserve(s, e, "gov/b4", supply0, coll0, ids)
	}
}
