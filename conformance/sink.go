package verifpkg

// Conformance sink: the same case file is compiled natively (go test, real big.Int arithmetic) and executed by the symbolic
// engine on the same concrete inputs; both emit (name, value) pairs that must agree line by line.

import (
	"cosmossdk.io/math"
	sdk "github.com/cosmos/cosmos-sdk/types"
)

type verifConfSink interface {
	Int(name string, v math.Int)
	Dec(name string, v sdk.Dec)
	I64(name string, v int64)
	Bool(name string, v bool)
	Str(name string, v string)
}
