package verifpkg

import (
	"time"

	"cosmossdk.io/math"
	"github.com/chain4energy/c4e-chain/x/cfevesting/types"
	sdk "github.com/cosmos/cosmos-sdk/types"
	vestingtypes "github.com/cosmos/cosmos-sdk/x/auth/vesting/types"
)

type verifVestSymEnv struct {
	k   Keeper
	ctx sdk.Context
}

var verifVestAddrs = []string{"c4e:conf0", "c4e:conf1", "c4e:conf2", "c4e:conf3", "c4e:conf4", "c4e:conf5"}

func (e *verifVestSymEnv) Addr(i int) string  { return verifVestAddrs[i] }
func (e *verifVestSymEnv) SetTime(unix int64) { e.ctx = verifCtx(time.Unix(unix, 0)) }
func (e *verifVestSymEnv) Fund(addr string, amt int64) {
	W.bank.fund(verifAddr(addr), vDenom, sdk.NewInt(amt))
}
func (e *verifVestSymEnv) SetVestingType(name string, lockupSec, vestingSec int64, freePermille int64) {
	e.k.SetVestingType(e.ctx, types.VestingType{Name: name, LockupPeriod: time.Duration(lockupSec) * time.Second,
		VestingPeriod: time.Duration(vestingSec) * time.Second, Free: sdk.NewDecWithPrec(freePermille, 3)})
}
func (e *verifVestSymEnv) srv() types.MsgServer { return NewMsgServerImpl(e.k) }

// a rejected message leaves no trace (baseapp discards the cache context of a failed transaction)
func (e *verifVestSymEnv) deliver(f func() error) bool {
	saved := verif_deep_copy(*W).(verifWorld)
	if err := f(); err != nil {
		// restored in place: the keeper holds pointers to the bank and auth models
		*W.bank = *saved.bank
		*W.auth = *saved.auth
		W.stores = saved.stores
		W.events = saved.events
		return false
	}
	return true
}
func (e *verifVestSymEnv) CreatePool(owner, name string, amt int64, durSec int64, vtype string) bool {
	return e.deliver(func() error {
		_, err := e.srv().CreateVestingPool(sdk.WrapSDKContext(e.ctx), &types.MsgCreateVestingPool{Owner: owner, Name: name, Amount: sdk.NewInt(amt),
			Duration: time.Duration(durSec) * time.Second, VestingType: vtype})
		return err
	})
}
func (e *verifVestSymEnv) WithdrawAll(owner string) (math.Int, bool) {
	out := sdk.ZeroInt()
	ok := e.deliver(func() error {
		r, err := e.srv().WithdrawAllAvailable(sdk.WrapSDKContext(e.ctx), &types.MsgWithdrawAllAvailable{Owner: owner})
		if err == nil {
			out = r.Withdrawn.Amount
		}
		return err
	})
	return out, ok
}
func (e *verifVestSymEnv) SendToNew(owner, to, pool string, amt int64, restart bool) bool {
	return e.deliver(func() error {
		_, err := e.srv().SendToVestingAccount(sdk.WrapSDKContext(e.ctx), &types.MsgSendToVestingAccount{Owner: owner, ToAddress: to, VestingPoolName: pool,
			Amount: sdk.NewInt(amt), RestartVesting: restart})
		return err
	})
}
func (e *verifVestSymEnv) CreateVestingAccount(from, to string, amt int64, start, end int64) bool {
	return e.deliver(func() error {
		_, err := e.srv().CreateVestingAccount(sdk.WrapSDKContext(e.ctx), &types.MsgCreateVestingAccount{FromAddress: from, ToAddress: to,
			Amount: sdk.NewCoins(sdk.NewCoin(vDenom, sdk.NewInt(amt))), StartTime: start, EndTime: end})
		return err
	})
}
func (e *verifVestSymEnv) Split(from, to string, amt int64) bool {
	return e.deliver(func() error {
		_, err := e.srv().SplitVesting(sdk.WrapSDKContext(e.ctx), &types.MsgSplitVesting{FromAddress: from, ToAddress: to,
			Amount: sdk.NewCoins(sdk.NewCoin(vDenom, sdk.NewInt(amt)))})
		return err
	})
}
func (e *verifVestSymEnv) MoveAll(from, to string) bool {
	return e.deliver(func() error {
		_, err := e.srv().MoveAvailableVesting(sdk.WrapSDKContext(e.ctx), &types.MsgMoveAvailableVesting{FromAddress: from, ToAddress: to})
		return err
	})
}
func (e *verifVestSymEnv) Bal(addr string) math.Int { return verifBalOf(addr, vDenom) }
func (e *verifVestSymEnv) ModuleBal() math.Int      { return verifModuleBal(vDenom) }
func (e *verifVestSymEnv) Locked(addr string) math.Int {
	return W.bank.LockedCoins(e.ctx, verifAddr(addr)).AmountOf(vDenom)
}
func (e *verifVestSymEnv) Pool(owner string, i int) (il, w, s math.Int, lockStart, lockEnd int64, ok bool) {
	avp, found := e.k.GetAccountVestingPools(e.ctx, owner)
	if !found || i >= len(avp.VestingPools) {
		return sdk.ZeroInt(), sdk.ZeroInt(), sdk.ZeroInt(), 0, 0, false
	}
	p := avp.VestingPools[i]
	return p.InitiallyLocked, p.Withdrawn, p.Sent, p.LockStart.Unix(), p.LockEnd.Unix(), true
}
func (e *verifVestSymEnv) VestAcc(addr string) (ov math.Int, start, end int64, ok bool) {
	acc := W.auth.GetAccount(e.ctx, verifAddr(addr))
	va, isV := acc.(*vestingtypes.ContinuousVestingAccount)
	if acc == nil || !isV {
		return sdk.ZeroInt(), 0, 0, false
	}
	return va.OriginalVesting.AmountOf(vDenom), va.StartTime, va.EndTime, true
}

func Verif_CONF_run() {
	k := verifVestingKeeper()
	e := &verifVestSymEnv{k: k, ctx: verifCtx(time.Unix(1700000000, 0))}
	verifSetParams(k, e.ctx)
	verifVestCases(verifSymSink{}, e)
	verif_reach("conformance cases emitted")
}
