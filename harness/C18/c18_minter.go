package cfeminter

// C18 (cfeminter part) — the Mint event carries the amount minted in that block.

import (
	"github.com/chain4energy/c4e-chain/x/cfeminter/types"
	sdk "github.com/cosmos/cosmos-sdk/types"
)

func Verif_C18_mint_event() {
	verif_knob("ignore_overflow", 1)
	n := verif_choice("n", 2) + 1
	kinds := verifKinds(n, verif_choice("kinds", verifKindCount(n)))
	s := verifSchedule(n, kinds)
	T := verif_time("T")
	for i := 0; i < n; i++ {
		s.assumeSteps(i, T, 2)
	}
	k := verifMinterModuleKeeper()
	g := types.GenesisState{Params: s.params, MinterState: types.MinterState{SequenceId: verifSeq(0), AmountMinted: sdk.ZeroInt(), RemainderToMint: sdk.ZeroDec(),
		RemainderFromPreviousMinter: sdk.ZeroDec(), LastMintBlockTime: s.params.StartTime}}
	ctx := verifCtx(s.params.StartTime)
	InitGenesis(ctx, k, W.auth, g)
	W.bank.fund(verifModuleAddr("holders"), "uc4e", verif_int_range("supply", "1", "1e30"))
	supplyBefore := W.bank.supplyOf("uc4e")
	verif_knob("unroll", 8)
	BeginBlocker(ctx.WithBlockTime(T), k)
	minted := W.bank.supplyOf("uc4e").Sub(supplyBefore)
	nMint := 0
	for _, ev := range W.events {
		if m, ok := ev.(*types.Mint); ok {
			nMint++
			verif_assert(m.Amount == minted.String(), "Mint event amount = coins minted in this block")
		}
	}
	verif_assert(nMint == 1, "exactly one Mint event per block")
	verif_assert(W.bank.balance(verifAddrKey(verifModuleAddr(verifCollector)), "uc4e").Equal(minted), "the minted coins reached the collector")
	verif_reach("mint event checked")
}
