package cfedistributor

// C18 (cfedistributor part) — a block's Distribution and DistributionBurn events of a sub-distributor add up to its inflow.

import (
	"github.com/chain4energy/c4e-chain/x/cfedistributor/types"
	sdk "github.com/cosmos/cosmos-sdk/types"
)

func Verif_C18_distribution_events() {
	k := verifDistKeeper()
	ctx := verifCtx(verif_time_range("now", 1600000000, 1900000000))
	// destinations that are not the main account (for MAIN destinations the coins stay in the main account and no event describes them)
	dst := []types.Account{{Type: types.ModuleAccount, Id: dGBC}, {Type: types.BaseAccount, Id: dBase2}, {Type: types.ModuleAccount, Id: dVRC}}
	src := []types.Account{{Type: types.Main}, {Type: types.ModuleAccount, Id: dGEB}, {Type: types.BaseAccount, Id: dBase1}}
	sd := verifSubFrom(0, verif_choice("nsrc1", 2)+1, verif_choice("withShare1", 2) == 1, src, dst)
	p := types.Params{SubDistributors: []types.SubDistributor{sd}}
	verif_assume(p.Validate() == nil)
	if err := k.SetParams(ctx, p); err != nil {
		verif_fail("SetParams rejects parameters that Validate accepted")
	}
	inflow := sdk.ZeroInt()
	for j, s := range sd.Sources {
		amt := verif_int_range("inflow"+string(rune('a'+j)), "1", dMaxAmt)
		addr, _ := verifAccountAddr(*s)
		W.bank.fund(addr, dDenom, amt)
		inflow = inflow.Add(amt)
	}
	BeginBlocker(ctx, k)
	sum := sdk.ZeroDec()
	for _, ev := range W.events {
		switch e := ev.(type) {
		case *types.Distribution:
			verif_assert(e.Subdistributor == sd.Name, "event names its sub-distributor")
			sum = sum.Add(e.Amount.AmountOf(dDenom))
		case *types.DistributionBurn:
			sum = sum.Add(e.Amount.AmountOf(dDenom))
		}
	}
	verif_assert(sum.Equal(sdk.NewDecFromInt(inflow)), "distribution + burn events of the sub-distributor add up to its inflow")
	verif_reach("distribution events checked")
}
