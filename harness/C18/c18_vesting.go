package keeper

// C18 (cfevesting part) — withdrawal events report, per pool, exactly the amount withdrawn from that pool, summing to the coins paid.

import (
	"github.com/chain4energy/c4e-chain/x/cfevesting/types"
	sdk "github.com/cosmos/cosmos-sdk/types"
)

func Verif_C18_withdraw_events() {
	k := verifVestingKeeper()
	T := verif_time_range("now", vVT0, vVT1)
	ctx := verifCtx(T)
	verifSetParams(k, ctx)
	np := 2
	if verif_tier() > 0 {
		np = 3
	}
	n := verif_choice("npools", np) + 1
	avp := verifOwnerPools(k, ctx, n, "vt")
	resp, err := NewMsgServerImpl(k).WithdrawAllAvailable(sdk.WrapSDKContext(ctx), &types.MsgWithdrawAllAvailable{Owner: vOwner})
	verif_assert(err == nil, "withdraw-all succeeds")
	total := sdk.ZeroInt()
	for _, p := range avp.VestingPools {
		paid := sdk.ZeroInt()
		if !T.Before(p.LockEnd) {
			paid = p.GetCurrentlyLocked()
		}
		total = total.Add(paid)
		count := 0
		for _, ev := range W.events {
			if e, ok := ev.(*types.WithdrawAvailable); ok && e.VestingPoolName == p.Name {
				count++
				verif_assert(e.Owner == vOwner, "event names the owner")
				verif_assert(e.Amount == paid.String()+vDenom, "event amount = amount withdrawn from that pool")
			}
		}
		if paid.IsPositive() {
			verif_assert(count == 1, "one event per pool that paid")
		} else {
			verif_assert(count == 0, "no event for a pool that paid nothing")
		}
	}
	if err == nil {
		verif_assert(resp.Withdrawn.Amount.Equal(total), "events sum to the coins paid out")
	}
	verif_reach("withdraw events checked")
}
