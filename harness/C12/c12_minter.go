package cfeminter

// C12 (cfeminter part) — genesis export / import preserves parameters, state and history.

import (
	"github.com/chain4energy/c4e-chain/x/cfeminter/types"
	sdk "github.com/cosmos/cosmos-sdk/types"
)

func Verif_C12_minter_roundtrip() {
	n := verif_choice("n", 3) + 1
	kinds := verifKinds(n, verif_choice("kinds", verifKindCount(n)))
	s := verifSchedule(n, kinds)
	cur := verif_choice("cur", n)
	g0 := types.GenesisState{Params: s.params, MinterState: types.MinterState{SequenceId: verifSeq(cur), AmountMinted: verif_int_range("minted", "0", "1e40"),
		RemainderToMint: verif_dec_range("rtm", "0", "999999999999999999"), RemainderFromPreviousMinter: verif_dec_range("carry", "0", "999999999999999999"),
		LastMintBlockTime: verif_time("t_last")}}
	for i := 0; i < cur; i++ {
		g0.StateHistory = append(g0.StateHistory, &types.MinterState{SequenceId: verifSeq(i), AmountMinted: verif_int_range("hminted"+idx(i), "0", "1e40"),
			RemainderToMint: verif_dec_range("hrtm"+idx(i), "0", "999999999999999999"), RemainderFromPreviousMinter: verif_dec_range("hcarry"+idx(i), "0", "999999999999999999"),
			LastMintBlockTime: verif_time("ht" + idx(i))})
	}
	verif_assume(g0.Validate() == nil)
	k := verifMinterModuleKeeper()
	ctx := verifCtx(g0.MinterState.LastMintBlockTime)
	InitGenesis(ctx, k, W.auth, g0)
	g := ExportGenesis(ctx, k)
	verif_assert(g.Validate() == nil, "an exported genesis passes validation")
	verif_assert(verif_deep_equal(g.MinterState, g0.MinterState), "minter state survives export")
	verif_assert(len(g.StateHistory) == cur, "every history entry is exported")
	verif_assert(len(g.Params.Minters) == n && g.Params.MintDenom == g0.Params.MintDenom && g.Params.StartTime.Equal(g0.Params.StartTime), "parameters survive export")
	k2 := verifMinterModuleKeeper()
	ctx2 := verifCtx(g0.MinterState.LastMintBlockTime)
	InitGenesis(ctx2, k2, W.auth, *g)
	g2 := ExportGenesis(ctx2, k2)
	verif_assert(verif_deep_equal(g, g2), "re-export yields the same genesis")
	verif_assert(verif_deep_equal(k.GetParams(ctx), k2.GetParams(ctx2)), "stored parameters are identical after import")
	verif_assert(verif_deep_equal(k.GetMinterState(ctx), k2.GetMinterState(ctx2)), "stored minter state is identical after import")
	for i := 0; i < cur; i++ {
		h1, f1 := k.GetMinterStateHistory(ctx, uint32(i+1))
		h2, f2 := k2.GetMinterStateHistory(ctx2, uint32(i+1))
		verif_assert(f1 && f2 && verif_deep_equal(h1, h2), "history entries are identical after import")
	}
	_ = sdk.ZeroInt
	verif_reach("minter roundtrip checked")
}
