package cfesignature

// C12 (cfesignature part) — genesis export / import must not lose module data.
// KNOWN FINDING D14: the genesis state of cfesignature only carries Params; stored signatures and payload links are not exported.

import (
	"github.com/chain4energy/c4e-chain/x/cfesignature/keeper"
	"github.com/chain4energy/c4e-chain/x/cfesignature/types"
	paramtypes "github.com/cosmos/cosmos-sdk/x/params/types"
)

type verifNoJSON struct{}

func verifSigModuleKeeper() keeper.Keeper {
	verifNewWorld()
	W.auth.addPerm(types.ModuleName)
	return *keeper.NewKeeper(verifCodec{}, nil, &verifStoreKey{types.StoreKey}, &verifStoreKey{types.MemStoreKey}, paramtypes.Subspace{}, W.auth)
}

func Verif_C12_signature_roundtrip() {
	k := verifSigModuleKeeper()
	ctx := verifCtx(verif_time_range("now", 1600000000, 1900000000))
	k.SetParams(ctx, types.Params{})
	withData := verif_choice("withData", 2) == 1
	sk, lk := verif_str("storageKey"), verif_str("linkKey")
	verif_assume(len(sk) > 0 && len(lk) > 0)
	sig := types.Signature{Signature: verif_str("sig"), Algorithm: verif_str("alg"), Certificate: verif_str("cert"), Timestamp: verif_str("ts")}
	if withData {
		k.AppendSignature(ctx, sk, sig)
		_ = k.AppendPayloadLink(ctx, lk, verif_str("link"))
		verif_finding("D14")
	}
	g := ExportGenesis(ctx, k)
	verif_assert(g.Validate() == nil, "an exported genesis passes validation")
	k2 := verifSigModuleKeeper()
	ctx2 := verifCtx(verif_time_range("now", 1600000000, 1900000000))
	InitGenesis(ctx2, k2, *g)
	if withData {
		got, err := k2.GetSignature(ctx2, sk)
		verif_assert(err == nil && got != nil && got.Signature == sig.Signature && got.Certificate == sig.Certificate, "stored signatures survive export / import")
	}
	verif_reach("signature roundtrip checked")
}
