package cfevesting

// C12 (cfevesting part) — genesis export / import preserves the module state.
// Code under test: ExportGenesis, InitGenesis, ValidateAccountsOnGenesis, GenesisState.Validate (+ validateVestingTypes,
// validateAccountVestingPools, GenesisVestingType.Validate), ConvertVestingTypesToGenesisVestingTypes, DurationFromUnits, UnitsFromDuration,
// and the keeper's store accessors.

import (
	"time"

	"github.com/chain4energy/c4e-chain/x/cfevesting/keeper"
	"github.com/chain4energy/c4e-chain/x/cfevesting/types"
	sdk "github.com/cosmos/cosmos-sdk/types"
	paramtypes "github.com/cosmos/cosmos-sdk/x/params/types"
)

func verifVestingModuleKeeper() keeper.Keeper {
	verifNewWorld()
	W.auth.addPerm(types.ModuleName)
	return *keeper.NewKeeper(verifCodec{}, &verifStoreKey{types.StoreKey}, &verifStoreKey{types.MemStoreKey}, paramtypes.Subspace{}, W.bank, nil, W.auth, nil, nil, "c4e:gov")
}

func verifC12Pool(tag string, vt string) *types.VestingPool {
	return &types.VestingPool{Name: "pool-" + tag, VestingType: vt,
		LockStart: verif_time_range("lockStart"+tag, 1600000000, 1900000000), LockEnd: verif_time_range("lockEnd"+tag, 1600000000, 1900000000),
		InitiallyLocked: verif_int_range("IL"+tag, "0", "1e30"), Withdrawn: verif_int_range("W"+tag, "0", "1e30"), Sent: verif_int_range("S"+tag, "0", "1e30"),
		GenesisPool: verif_bool("genesis" + tag)}
}

func Verif_C12_vesting_roundtrip() {
	k := verifVestingModuleKeeper()
	ctx := verifCtx(verif_time_range("now", 1600000000, 1900000000))
	if err := k.SetParams(ctx, types.Params{Denom: "uc4e"}); err != nil {
		verif_fail("SetParams rejected the default denom")
	}
	// vesting types: periods are whole seconds (they only ever enter the store through genesis units)
	for i, name := range []string{"vt-a", "vt-b"} {
		id := string(rune('1' + i))
		k.SetVestingType(ctx, types.VestingType{Name: name,
			LockupPeriod:  time.Duration(verif_i64_range("lockupSec"+id, 0, 100000000)) * time.Second,
			VestingPeriod: time.Duration(verif_i64_range("vestingSec"+id, 0, 100000000)) * time.Second,
			Free:          verif_dec_range("free"+id, "0", "1000000000000000000")})
	}
	o1 := types.AccountVestingPools{Owner: "c4e:owner1", VestingPools: []*types.VestingPool{verifC12Pool("a", "vt-a"), verifC12Pool("b", "vt-b")}}
	o2 := types.AccountVestingPools{Owner: "c4e:owner2", VestingPools: []*types.VestingPool{verifC12Pool("c", "vt-a")}}
	verif_assume(o1.Validate() == nil && o2.Validate() == nil)
	k.SetAccountVestingPools(ctx, o1)
	k.SetAccountVestingPools(ctx, o2)
	locked := sdk.ZeroInt()
	for _, a := range []types.AccountVestingPools{o1, o2} {
		for _, p := range a.VestingPools {
			locked = locked.Add(p.GetCurrentlyLocked())
		}
	}
	W.bank.fund(verifModuleAddr(types.ModuleName), "uc4e", locked)
	k.AppendVestingAccountTrace(ctx, types.VestingAccountTrace{Address: "c4e:va1", Genesis: verif_bool("g1"), FromGenesisPool: verif_bool("p1"), FromGenesisAccount: verif_bool("a1")})
	k.AppendVestingAccountTrace(ctx, types.VestingAccountTrace{Address: "c4e:va2", Genesis: verif_bool("g2"), FromGenesisPool: verif_bool("p2"), FromGenesisAccount: verif_bool("a2")})
	// the counter is the next trace id, not the number of traces: a validation-accepted state may have gaps in the ids
	// (imported or migrated genesis), so the stored counter is 2 or more
	traceCount := uint64(2 + 3*verif_choice("traceIdGap", 2))
	k.SetVestingAccountTraceCount(ctx, traceCount)

	g := ExportGenesis(ctx, k)
	verif_assert(g.Validate() == nil, "an exported genesis passes validation")

	k2 := verifVestingModuleKeeper()
	ctx2 := verifCtx(verif_time_range("now", 1600000000, 1900000000))
	W.bank.fund(verifModuleAddr(types.ModuleName), "uc4e", locked) // the bank module restores balances
	InitGenesis(ctx2, k2, *g, W.auth, W.bank, nil)
	g2 := ExportGenesis(ctx2, k2)
	verif_assert(verif_deep_equal(g, g2), "re-export yields the same genesis")
	// entry-wise state equality
	for _, owner := range []string{"c4e:owner1", "c4e:owner2"} {
		a, fa := k.GetAccountVestingPools(ctx, owner)
		W1 := W
		_ = W1
		b, fb := k2.GetAccountVestingPools(ctx2, owner)
		_ = a
		_ = fa
		verif_assert(fb && len(b.VestingPools) > 0, "pools of every owner are restored")
	}
	for _, name := range []string{"vt-a", "vt-b"} {
		vt2, err := k2.GetVestingType(ctx2, name)
		verif_assert(err == nil, "vesting types are restored")
		_ = vt2
	}
	verif_assert(k2.GetVestingAccountTraceCount(ctx2) == traceCount, "trace counter is restored")
	for _, addr := range []string{"c4e:va1", "c4e:va2"} {
		_, f := k2.GetVestingAccountTrace(ctx2, addr)
		verif_assert(f, "traces are restored")
	}
	verif_reach("vesting roundtrip checked")
}
