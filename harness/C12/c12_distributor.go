package cfedistributor

// C12 (cfedistributor part) — genesis export / import preserves parameters and states (incl. the burn state's shape).

import (
	"github.com/chain4energy/c4e-chain/x/cfedistributor/types"
)

func Verif_C12_distributor_roundtrip() {
	k := verifDistKeeper()
	ctx := verifCtx(verif_time_range("now", 1600000000, 1900000000))
	p := verifC10DistConfigN(2)
	if err := k.SetParams(ctx, p); err != nil {
		verif_fail("SetParams rejects parameters that Validate accepted")
	}
	verifC10DistBooks(k, ctx, p)
	before := k.GetAllStates(ctx)
	g := ExportGenesis(ctx, k)
	verif_assert(g.Validate() == nil, "an exported genesis passes validation")
	k2 := verifDistKeeper()
	ctx2 := verifCtx(verif_time_range("now", 1600000000, 1900000000))
	InitGenesis(ctx2, k2, *g, W.auth)
	after := k2.GetAllStates(ctx2)
	verif_assert(len(before) == len(after), "every state is restored")
	verif_assert(verif_deep_equal(k.GetParams(ctx), k2.GetParams(ctx2)), "stored parameters are identical after import")
	for i := range before {
		if i < len(after) {
			verif_assert(before[i].Burn == after[i].Burn && verif_deep_equal(before[i].Remains, after[i].Remains), "remains of every state are identical after import")
			verif_assert((before[i].Account == nil) == (after[i].Account == nil), "states keep the shape the running code relies on (account present)")
			if before[i].Account != nil && after[i].Account != nil {
				verif_assert(before[i].Account.Id == after[i].Account.Id && before[i].Account.Type == after[i].Account.Type, "state accounts are identical after import")
			}
		}
	}
	g2 := ExportGenesis(ctx2, k2)
	verif_assert(verif_deep_equal(g, g2), "re-export yields the same genesis")
	_ = types.ModuleName
	verif_reach("distributor roundtrip checked")
}
