package keeper

// keeper constructor for harnesses overlaid into x/cfedistributor/keeper

import (
	"github.com/chain4energy/c4e-chain/x/cfedistributor/types"
)

func verifDistKeeper() Keeper {
	verifDistWorld()
	return Keeper{cdc: verifCodec{}, storeKey: &verifStoreKey{types.StoreKey}, bankKeeper: W.bank, accountKeeper: W.auth, authority: "c4e:gov"}
}
