package keeper

// Shared set-up for the cfedistributor harnesses (overlaid into x/cfedistributor/keeper).

import (
	"cosmossdk.io/math"
	"github.com/chain4energy/c4e-chain/x/cfedistributor/types"
	sdk "github.com/cosmos/cosmos-sdk/types"
	authtypes "github.com/cosmos/cosmos-sdk/x/auth/types"
)

const (
	dDenom  = "uc4e"
	dDenom2 = "uother"
	dMaxAmt = "2e18"
	dMain   = types.DistributorMainAccount
	dVRC    = types.ValidatorsRewardsCollector
	dGBC    = types.GovernanceBoosterCollector
	dGEB    = types.GreenEnergyBoosterCollector
	dBase1  = "c4e:base1"
	dBase2  = "c4e:base2"
)

// verifDistWorld creates the world, the module-account permission table of app.go and the distributor's maccPerms.
func verifDistWorld() {
	verifNewWorld()
	perms := map[string][]string{
		authtypes.FeeCollectorName: {authtypes.Burner},
		"cfeminter":                {authtypes.Minter, authtypes.Burner, authtypes.Staking},
		"cfevesting":               nil,
		dMain:                      {authtypes.Burner},
		dVRC:                       nil,
		dGBC:                       nil,
		dGEB:                       nil,
	}
	types.SetMaccPerms(perms)
	W.auth.addPerm(authtypes.FeeCollectorName, authtypes.Burner)
	W.auth.addPerm("cfeminter", authtypes.Minter, authtypes.Burner, authtypes.Staking)
	W.auth.addPerm("cfevesting")
	W.auth.addPerm(dMain, authtypes.Burner)
	W.auth.addPerm(dVRC)
	W.auth.addPerm(dGBC)
	W.auth.addPerm(dGEB)
}

func verifAddr(s string) sdk.AccAddress {
	a, err := sdk.AccAddressFromBech32(s)
	if err != nil {
		panic("verif: bad model address " + s)
	}
	return a
}

// account pools (concrete, chosen by forking): sources and destinations
var dSourcePool = []types.Account{
	{Type: types.Main},
	{Type: types.ModuleAccount, Id: dVRC},
	{Type: types.BaseAccount, Id: dBase1},
	{Type: types.ModuleAccount, Id: dMain}, // the main account named as a module account
	{Type: types.InternalAccount, Id: "int1"},
}

var dDestPool = []types.Account{
	{Type: types.ModuleAccount, Id: dGBC},
	{Type: types.BaseAccount, Id: dBase2},
	{Type: types.InternalAccount, Id: "int1"},
	{Type: types.Main},
	{Type: types.ModuleAccount, Id: dMain},  // the main account named as a module account
	{Type: types.InternalAccount, Id: dGBC}, // internal account named like a module account
}

func verifAccountAddr(a types.Account) (sdk.AccAddress, bool) {
	switch a.Type {
	case types.Main:
		return verifModuleAddr(dMain), true
	case types.ModuleAccount:
		return verifModuleAddr(a.Id), true
	case types.BaseAccount:
		return verifAddr(a.Id), true
	}
	return nil, false
}

func verifMainBal(denom string) math.Int {
	return W.bank.balance(verifAddrKey(verifModuleAddr(dMain)), denom)
}

func verifBalOfAcc(a types.Account, denom string) math.Int {
	addr, ok := verifAccountAddr(a)
	if !ok {
		return sdk.ZeroInt()
	}
	return W.bank.balance(verifAddrKey(addr), denom)
}

// verifSub builds sub-distributor i: nsrc sources and (optionally) one named share from the pools; shares symbolic in [0,1).
func verifSub(i int, nsrc int, withShare bool) types.SubDistributor {
	return verifSubFrom(i, nsrc, withShare, dSourcePool, dDestPool)
}

// verifSubFrom: like verifSub with explicit account pools.
func verifSubFrom(i int, nsrc int, withShare bool, srcPool, dstPool []types.Account) types.SubDistributor {
	id := string(rune('1' + i))
	sd := types.SubDistributor{Name: "sd" + id}
	for j := 0; j < nsrc; j++ {
		a := srcPool[verif_choice("src"+id+string(rune('a'+j)), len(srcPool))]
		sd.Sources = append(sd.Sources, &a)
	}
	sd.Destinations.PrimaryShare = dstPool[verif_choice("primary"+id, len(dstPool))]
	sd.Destinations.BurnShare = verif_dec_range("burn"+id, "0", "999999999999999999")
	if withShare {
		sd.Destinations.Shares = []*types.DestinationShare{{Name: "share" + id, Share: verif_dec_range("share"+id, "0", "999999999999999999"),
			Destination: dstPool[verif_choice("shareDst"+id, len(dstPool))]}}
	}
	return sd
}

func verifRemainsSum(states []types.State, denom string) sdk.Dec {
	s := sdk.ZeroDec()
	for _, st := range states {
		s = s.Add(st.Remains.AmountOf(denom))
	}
	return s
}

func verifDecCoins(denom string, d sdk.Dec) sdk.DecCoins {
	if d.IsZero() {
		return sdk.DecCoins{}
	}
	return sdk.DecCoins{sdk.DecCoin{Denom: denom, Amount: d}}
}
