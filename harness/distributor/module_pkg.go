package cfedistributor

// keeper constructor for harnesses overlaid into x/cfedistributor (the module package with BeginBlocker / genesis)

import (
	"github.com/chain4energy/c4e-chain/x/cfedistributor/keeper"
	"github.com/chain4energy/c4e-chain/x/cfedistributor/types"
	paramtypes "github.com/cosmos/cosmos-sdk/x/params/types"
)

type Keeper = keeper.Keeper

func verifDistKeeper() keeper.Keeper {
	verifDistWorld()
	return *keeper.NewKeeper(verifCodec{}, &verifStoreKey{types.StoreKey}, &verifStoreKey{types.MemStoreKey}, paramtypes.Subspace{}, W.bank, W.auth, "c4e:gov")
}
