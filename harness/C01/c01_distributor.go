package keeper

// C01 (cfedistributor part) — the distributor destroys exactly its recorded burn share and nothing else.
// Together with Verif_C04_shares_exact (the burn state grows by trunc18(inflow * configured burn share)) and
// Verif_C03_block_keeps_books (supply shrinks by what the bank burned; only sends and burns happen) this gives
// "supply changes by minus the configured burn". Code under test: SendCoinsFromStates, burnCoins, sendCoinsToModuleAccount,
// sendCoinsToBaseAccount, checkIfAnyCoinIsGTE1.

import (
	"github.com/chain4energy/c4e-chain/x/cfedistributor/types"
	sdk "github.com/cosmos/cosmos-sdk/types"
)

func Verif_C01_payout_burns_recorded_share_only() {
	k := verifDistKeeper()
	ctx := verifCtx(verif_time_range("now", 1600000000, 1900000000))
	// arbitrary books: a burn state (first, last or absent) and one state per destination of the pool, any non-negative leftovers
	var states []types.State
	for i, a := range dDestPool {
		if a.Type == types.Main {
			continue // (a destination without a state behaves like one whose leftover is below one coin: nothing is paid)
		}
		acc := a
		states = append(states, types.State{Account: &acc, Remains: verifDecCoins(dDenom, verif_dec_range("rem"+string(rune('a'+i)), "0", "2e36"))})
	}
	burnRem := sdk.ZeroDec()
	if verif_choice("hasBurn", 2) == 1 {
		burnRem = verif_dec_range("rem_burn", "0", "2e36")
		pos := verif_choice("burnPos", 2)
		bs := types.State{Account: &types.Account{}, Burn: true, Remains: verifDecCoins(dDenom, burnRem)}
		if pos == 0 {
			states = append([]types.State{bs}, states...)
		} else {
			states = append(states, bs)
		}
	}
	sum := verifRemainsSum(states, dDenom)
	W.bank.fund(verifModuleAddr(dMain), dDenom, sum.TruncateInt().Add(verif_int_range("extra", "0", dMaxAmt)))
	supplyBefore := W.bank.supplyOf(dDenom)
	mainAddr := verifAddrKey(verifModuleAddr(dMain))

	W.bank.faults = true
	k.SendCoinsFromStates(ctx, states)
	W.bank.faults = false

	burned := sdk.ZeroInt()
	nburn := 0
	for _, c := range W.bank.calls {
		switch c.op {
		case "burn":
			nburn++
			verif_assert(c.from == mainAddr, "coins are burned from the distributor main account only")
			verif_assert(c.amt.AmountOf(dDenom).Equal(burnRem.TruncateInt()), "a burn destroys exactly the whole-coin part of the recorded burn share")
			if c.ok {
				burned = burned.Add(c.amt.AmountOf(dDenom))
			}
		case "send":
			verif_assert(c.from == mainAddr, "payouts leave the distributor main account only")
		default:
			verif_fail("the payout step only sends and burns")
		}
	}
	verif_assert(nburn <= 1, "the burn share is burned at most once per block")
	verif_assert(W.bank.supplyOf(dDenom).Equal(supplyBefore.Sub(burned)), "supply shrinks exactly by the burned part of the recorded burn share")
	after := k.GetAllStates(ctx)
	verif_assert(verifStateRemains(after, true, types.Account{}).Equal(burnRem.Sub(sdk.NewDecFromInt(burned))), "the recorded burn share is reduced by exactly what was burned (kept in full when the burn failed)")
	verif_reach("payout checked")
}


// the supply part of one whole distributor block (the C03 harness without its refusing-account variants, which are C03's subject)
func Verif_C01_block_supply() {
	vC03Refusing = false
	Verif_C03_block_keeps_books()
}
