package app

// C01 (static side condition) — of the custom modules only cfeminter may mint; the vesting module account and the
// distributor's collectors hold no permission; only module accounts with the Burner permission can burn.

import (
	cfedistributormoduletypes "github.com/chain4energy/c4e-chain/x/cfedistributor/types"
	cfemintermoduletypes "github.com/chain4energy/c4e-chain/x/cfeminter/types"
	cfesignaturemoduletypes "github.com/chain4energy/c4e-chain/x/cfesignature/types"
	cfevestingmoduletypes "github.com/chain4energy/c4e-chain/x/cfevesting/types"
	authtypes "github.com/cosmos/cosmos-sdk/x/auth/types"
)

func verifHas(perms []string, p string) bool {
	for _, x := range perms {
		if x == p {
			return true
		}
	}
	return false
}

func Verif_C01_module_permissions() {
	perms, ok := maccPerms[cfemintermoduletypes.ModuleName]
	verif_assert(ok && verifHas(perms, authtypes.Minter), "cfeminter holds the Minter permission")
	for _, name := range []string{cfevestingmoduletypes.ModuleName, cfedistributormoduletypes.ValidatorsRewardsCollector,
		cfedistributormoduletypes.GreenEnergyBoosterCollector, cfedistributormoduletypes.GovernanceBoosterCollector} {
		p, found := maccPerms[name]
		verif_assert(found && len(p) == 0, "vesting module account and collectors hold no permission")
	}
	main, found := maccPerms[cfedistributormoduletypes.DistributorMainAccount]
	verif_assert(found && !verifHas(main, authtypes.Minter) && verifHas(main, authtypes.Burner), "the distributor main account may burn but not mint")
	_, sig := maccPerms[cfesignaturemoduletypes.ModuleName]
	verif_assert(!sig, "the signature module has no module account")
	verif_reach("permissions checked")
}
