package cfeminter

// C01 (cfeminter part) — a block changes the supply by exactly the scheduled mint: one MintCoins of x into the minter module
// followed by a module-to-module transfer of the same x to the collector; x is what Mint returns and what the event reports.

import (
	"github.com/chain4energy/c4e-chain/x/cfeminter/types"
	sdk "github.com/cosmos/cosmos-sdk/types"
)

func Verif_C01_mint_block() {
	verif_knob("ignore_overflow", 1)
	n := verif_choice("n", 2) + 1
	kinds := verifKinds(n, verif_choice("kinds", verifKindCount(n)))
	s := verifSchedule(n, kinds)
	cur := verif_choice("cur", n)
	T := verif_time("T")
	for i := 0; i < n; i++ {
		s.assumeSteps(i, T, 2)
	}
	// arbitrary (validation-accepted) minter state
	g := types.GenesisState{Params: s.params, MinterState: types.MinterState{SequenceId: verifSeq(cur), AmountMinted: verif_int_range("minted", "0", "1e40"),
		RemainderToMint: verif_dec_range("rtm", "0", "999999999999999999"), RemainderFromPreviousMinter: verif_dec_range("carry", "0", "999999999999999999"),
		LastMintBlockTime: verif_time("t_last")}}
	verif_assume(g.Validate() == nil)
	k := verifMinterModuleKeeper()
	ctx := verifCtx(g.MinterState.LastMintBlockTime)
	InitGenesis(ctx, k, W.auth, g)
	W.bank.fund(verifModuleAddr("holders"), "uc4e", verif_int_range("supply", "0", "1e30"))
	supplyBefore := W.bank.supplyOf("uc4e")
	total := func() sdk.Int {
		t := sdk.ZeroInt()
		for _, b := range W.bank.bals {
			if b.denom == "uc4e" {
				t = t.Add(b.amt)
			}
		}
		return t
	}
	verif_assert(total().Equal(supplyBefore), "supply = sum of balances (pre-state)")
	ncalls := len(W.bank.calls)
	verif_knob("unroll", 8)
	BeginBlocker(ctx.WithBlockTime(T), k)
	minted := W.bank.supplyOf("uc4e").Sub(supplyBefore)
	verif_assert(!minted.IsNegative(), "the minter never reduces the supply")
	verif_assert(total().Equal(W.bank.supplyOf("uc4e")), "supply = sum of balances (post-state)")
	calls := W.bank.calls[ncalls:]
	minterAddr := verifAddrKey(verifModuleAddr(types.ModuleName))
	collector := verifAddrKey(verifModuleAddr(verifCollector))
	mintedByCalls := sdk.ZeroInt()
	for i, c := range calls {
		switch c.op {
		case "mint":
			verif_assert(c.ok && c.to == minterAddr, "coins are minted into the minter module account only")
			mintedByCalls = mintedByCalls.Add(c.amt.AmountOf("uc4e"))
			verif_assert(i+1 < len(calls) && calls[i+1].op == "send" && calls[i+1].from == minterAddr && calls[i+1].to == collector && calls[i+1].amt.IsEqual(c.amt), "every mint is followed by a transfer of the same coins to the collector")
		case "send":
			verif_assert(c.from == minterAddr && c.to == collector, "the only transfer is minter module -> collector")
		default:
			verif_fail("the minter never burns")
		}
	}
	verif_assert(mintedByCalls.Equal(minted), "supply delta = coins minted")
	verif_assert(W.bank.balance(minterAddr, "uc4e").IsZero(), "nothing stays in the minter module account")
	verif_reach("mint block checked")
}
