package keeper

// C05 — the vesting module account is exactly backed by its pools, after every handler, on success and on every error return.
// Code under test: all eight cfevesting message handlers with their keeper functions, the three registered invariants
// (executed from invariants.go on the post-state), getLockedSum, GetAllAccountVestingPools.

import (
	"time"

	"github.com/chain4energy/c4e-chain/x/cfevesting/types"
	sdk "github.com/cosmos/cosmos-sdk/types"
	authtypes "github.com/cosmos/cosmos-sdk/x/auth/types"
	vestingtypes "github.com/cosmos/cosmos-sdk/x/auth/vesting/types"
)

const (
	vExisting  = "c4e:existing"
	vRecipient = "c4e:recipient"
	vVester    = "c4e:vester"
)

// verifC05State: owner with npools arbitrary valid pools, a second owner with one pool, module balance = exact sum (Inv_v).
func verifC05State(k Keeper, ctx sdk.Context, npools int) {
	avp := types.AccountVestingPools{Owner: vOwner}
	for i := 0; i < npools; i++ {
		avp.VestingPools = append(avp.VestingPools, verifPool(i, "vt"))
	}
	verif_assume(avp.Validate() == nil)
	k.SetAccountVestingPools(ctx, avp)
	other := types.AccountVestingPools{Owner: vOther, VestingPools: []*types.VestingPool{{
		Name: "pool-a", VestingType: "vt", LockStart: verif_time_range("oLockStart", vVT0, vVT1), LockEnd: verif_time_range("oLockEnd", vVT0, vVT1),
		InitiallyLocked: verif_int_range("oIL", "0", vMaxAmt), Withdrawn: verif_int_range("oW", "0", vMaxAmt), Sent: verif_int_range("oS", "0", vMaxAmt)}}}
	verif_assume(other.Validate() == nil)
	k.SetAccountVestingPools(ctx, other)
	W.bank.fund(verifModuleAddr(types.ModuleName), vDenom, getLockedSum(k, ctx))
	W.bank.fund(verifAddr(vOwner), vDenom, verif_int_range("ownerBalance", "0", vMaxAmt))
	// an existing plain account and a continuous vesting account (for split / move)
	W.auth.SetAccount(ctx, W.auth.NewAccountWithAddress(ctx, verifAddr(vExisting)))
	// (the split arithmetic itself is the subject of C07; here the account is small and not yet vesting)
	ov := sdk.NewInt(1000)
	base := W.auth.NewAccountWithAddress(ctx, verifAddr(vVester)).(*authtypes.BaseAccount)
	cva := vestingtypes.NewContinuousVestingAccountRaw(vestingtypes.NewBaseVestingAccount(base, sdk.NewCoins(sdk.NewCoin(vDenom, ov)), vVT1+1000000), vVT1)
	W.auth.SetAccount(ctx, cva)
	W.bank.fund(verifAddr(vVester), vDenom, ov)
}

func verifC05Check(k Keeper, ctx sdk.Context, supplyBefore sdk.Coin) {
	all := k.GetAllAccountVestingPools(ctx)
	for _, a := range all {
		for _, p := range a.VestingPools {
			verif_assert(!p.Withdrawn.IsNegative() && !p.Sent.IsNegative() && !p.InitiallyLocked.IsNegative(), "pool counters are non-negative")
			verif_assert(p.Withdrawn.Add(p.Sent).LTE(p.InitiallyLocked), "withdrawn + sent <= initially locked")
		}
	}
	// backing is measured in the vesting denomination of the stored parameters (a governance denom update must not leave funded pools behind)
	verif_assert(verifModuleBal(k.GetParams(ctx).Denom).Equal(getLockedSum(k, ctx)), "module account balance = sum of locked over all pools")
	_, b1 := NonNegativeVestingPoolAmountsInvariant(k)(ctx)
	_, b2 := VestingPoolConsistentDataInvariant(k)(ctx)
	_, b3 := ModuleAccountInvariant(k)(ctx)
	verif_assert(!b1 && !b2 && !b3, "the module's registered invariants hold")
	verif_assert(W.bank.supplyOf(vDenom).Equal(supplyBefore.Amount), "vesting operations neither create nor destroy coins")
	for _, c := range W.bank.calls {
		verif_assert(c.op == "send", "only transfers, never mint / burn")
	}
}

func Verif_C05_handlers_preserve_backing() {
	k := verifVestingKeeper()
	T := verif_time_range("now", vVT0, vVT1)
	ctx := verifCtx(T)
	verifSetParams(k, ctx)
	verifVestingType(k, ctx, "vt")
	np := 2
	if verif_tier() > 0 {
		np = 3
	}
	verifC05State(k, ctx, verif_choice("npools", np)+1)
	supply := W.bank.GetSupply(ctx, vDenom)
	// any bank transfer of the handler may fail (locked coins of a vesting sender, blocked recipient, ...): symbolic fault per call
	W.bank.faults = true
	ms := NewMsgServerImpl(k)
	g := sdk.WrapSDKContext(ctx)
	amount := verif_int_range("amount", "0", vMaxAmt)
	poolName := verif_str_in("poolName", "pool-a", "pool-b", "pool-new", "")
	to := verif_str_in("to", vRecipient, vExisting, vOwner)
	var err error
	switch verif_choice("op", 8) {
	case 7:
		_, err = ms.UpdateDenomParam(g, &types.MsgUpdateDenomParam{Authority: verif_str_in("authority", "c4e:gov", vOwner), Denom: verif_str_in("newDenom", "unew", vDenom, "")})
	case 0:
		vtName := verif_str_in("vtName", "vt", "missing")
		_, err = ms.CreateVestingPool(g, &types.MsgCreateVestingPool{Owner: vOwner, Name: poolName, Amount: amount,
			Duration: time.Duration(verif_i64_range("duration", -5, 100000000000000000)), VestingType: vtName})
	case 1:
		_, err = ms.SendToVestingAccount(g, &types.MsgSendToVestingAccount{Owner: vOwner, ToAddress: to, VestingPoolName: poolName, Amount: amount, RestartVesting: verif_bool("restart")})
	case 2:
		_, err = ms.WithdrawAllAvailable(g, &types.MsgWithdrawAllAvailable{Owner: verif_str_in("withdrawOwner", vOwner, vOther, vRecipient)})
	case 3:
		_, err = ms.CreateVestingAccount(g, &types.MsgCreateVestingAccount{FromAddress: vOwner, ToAddress: to, Amount: sdk.Coins{sdk.Coin{Denom: vDenom, Amount: amount}},
			StartTime: verif_i64_range("startUnix", 0, 4000000000), EndTime: verif_i64_range("endUnix", 0, 4000000000)})
	case 4:
		_, err = ms.SplitVesting(g, &types.MsgSplitVesting{FromAddress: verif_str_in("splitFrom", vVester, vOwner), ToAddress: to,
			Amount: sdk.Coins{sdk.Coin{Denom: vDenom, Amount: verif_int_range("splitAmount", "0", "1001")}}})
	case 5:
		_, err = ms.MoveAvailableVesting(g, &types.MsgMoveAvailableVesting{FromAddress: vVester, ToAddress: to})
	case 6:
		_, err = ms.MoveAvailableVestingByDenoms(g, &types.MsgMoveAvailableVestingByDenoms{FromAddress: vVester, ToAddress: to, Denoms: []string{vDenom}})
	}
	W.bank.faults = false
	verifC05Check(k, ctx, supply)
	if err == nil {
		verif_reach("handler succeeded")
	} else {
		verif_reach("handler rejected")
	}
}
