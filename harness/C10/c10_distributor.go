package cfedistributor

// C10 (cfedistributor part) — begin-block processing of the distributor never panics, for any validation-accepted configuration,
// any consistent books, any pattern of failing bank calls, and for states restored from an exported genesis.
// Code under test: cfedistributor.BeginBlocker (abci.go) with everything below it, InitGenesis / ExportGenesis, GenesisState.Validate.

import (
	"github.com/chain4energy/c4e-chain/x/cfedistributor/types"
	sdk "github.com/cosmos/cosmos-sdk/types"
)

func verifC10DistConfig() types.Params {
	return verifC10DistConfigN(2)
}

func verifC10DistConfigN(maxSrc int) types.Params {
	var subs []types.SubDistributor
	nsub := 1
	if verif_tier() > 0 {
		nsub = verif_choice("nsub", 2) + 1
	}
	for i := 0; i < nsub; i++ {
		sd := verifSub(i, verif_choice("nsrc"+string(rune('1'+i)), maxSrc)+1, verif_choice("withShare"+string(rune('1'+i)), 2) == 1)
		verif_assume(sd.Validate() == nil)
		subs = append(subs, sd)
	}
	p := types.Params{SubDistributors: subs}
	verif_assume(p.Validate() == nil)
	return p
}

// books in generic position (see C03): states with positive remains for every destination and the burn account, integral sum,
// main balance = sum + inflow, inflow on every non-main source
func verifC10DistBooks(k Keeper, ctx sdk.Context, p types.Params) {
	var states []types.State
	seen := map[string]bool{}
	add := func(a types.Account, tag string) {
		if a.Type == types.Main || seen[a.GetAccountKey()] {
			return
		}
		seen[a.GetAccountKey()] = true
		acc := a
		states = append(states, types.State{Account: &acc, Remains: verifDecCoins(dDenom, verif_dec_range("rem_"+tag, "1", "2e36"))})
	}
	for i, sd := range p.SubDistributors {
		id := string(rune('1' + i))
		add(sd.Destinations.PrimaryShare, "p"+id)
		for _, sh := range sd.Destinations.Shares {
			add(sh.Destination, "s"+id)
		}
	}
	states = append(states, types.State{Account: &types.Account{}, Burn: true, Remains: verifDecCoins(dDenom, verif_dec_range("rem_burn", "1", "2e36"))})
	sum := verifRemainsSum(states, dDenom)
	verif_assume(sum.Equal(sum.TruncateDec()))
	for _, st := range states {
		k.SetState(ctx, st)
	}
	W.bank.fund(verifModuleAddr(dMain), dDenom, sum.TruncateInt().Add(verif_int_range("mainInflow", "0", dMaxAmt)))
	funded := map[string]bool{}
	for i, sd := range p.SubDistributors {
		for j, src := range sd.Sources {
			addr, ok := verifAccountAddr(*src)
			if !ok || src.Type == types.Main {
				continue
			}
			if key := verifAddrKey(addr); !funded[key] {
				funded[key] = true
				W.bank.fund(addr, dDenom, verif_int_range("inflow"+string(rune('1'+i))+string(rune('a'+j)), "0", dMaxAmt))
			}
		}
	}
}

func Verif_C10_distributor_begin_block() {
	k := verifDistKeeper()
	ctx := verifCtx(verif_time_range("now", 1600000000, 1900000000))
	p := verifC10DistConfig()
	if err := k.SetParams(ctx, p); err != nil {
		verif_fail("SetParams rejects parameters that Validate accepted")
	}
	verifC10DistBooks(k, ctx, p)
	// persistent or sporadic transfer failures: quick = every bank call of the block fails or every call succeeds (chosen per path),
	// thorough = an independent symbolic flag per call
	if verif_tier() > 0 {
		W.bank.faults = true
		BeginBlocker(ctx, k)
		W.bank.faults = false
	} else {
		W.bank.failAll = verif_choice("allBankCallsFail", 2) == 1
		BeginBlocker(ctx, k)
		W.bank.failAll = false
	}
	// the step is inductive: what was assumed of the books before the block holds again after it — whatever the bank did — so the
	// next block starts from a state this harness covers (a block that leaves more recorded than the main account holds makes a later block panic)
	verifC10DistClosed(k, ctx)
	if verif_tier() > 0 {
		BeginBlocker(ctx, k) // and the block after
		verifC10DistClosed(k, ctx)
	}
	verif_reach("blocks processed")
}

func verifC10DistClosed(k Keeper, ctx sdk.Context) {
	states := k.GetAllStates(ctx)
	for _, st := range states {
		verif_assert(!st.Remains.AmountOf(dDenom).IsNegative(), "recorded leftovers stay non-negative (assumed of the pre-state of every block)")
	}
	sum := verifRemainsSum(states, dDenom)
	verif_assert(sum.Equal(sum.TruncateDec()), "leftovers still sum to a whole number of coins (assumed of the pre-state of every block)")
	verif_assert(sum.TruncateInt().LTE(verifMainBal(dDenom)), "the main account still covers the recorded leftovers (assumed of the pre-state of every block)")
}

// export -> validate -> import on a fresh chain -> begin block
func Verif_C10_distributor_export_import() {
	k := verifDistKeeper()
	ctx := verifCtx(verif_time_range("now", 1600000000, 1900000000))
	maxSrc := 1
	if verif_tier() > 0 {
		maxSrc = 2
	}
	p := verifC10DistConfigN(maxSrc)
	if err := k.SetParams(ctx, p); err != nil {
		verif_fail("SetParams rejects parameters that Validate accepted")
	}
	verifC10DistBooks(k, ctx, p)
	// (the books above have the shape the running code writes: the burn state carries an empty, non-nil account)
	if verif_tier() > 0 {
		BeginBlocker(ctx, k)
	}
	exp := ExportGenesis(ctx, k)
	verif_assert(exp.Validate() == nil, "an exported genesis passes validation")
	main := verifMainBal(dDenom)
	k2 := verifDistKeeper()
	ctx2 := verifCtx(verif_time_range("now", 1600000000, 1900000000))
	InitGenesis(ctx2, k2, *exp, W.auth)
	W.bank.fund(verifModuleAddr(dMain), dDenom, main.Add(verif_int_range("newInflow", "0", dMaxAmt)))
	BeginBlocker(ctx2, k2)
	verif_reach("block processed after import")
}
