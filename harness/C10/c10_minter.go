package cfeminter

// C10 (cfeminter part) — begin-block processing of the minter never panics for any parameters and state that validation accepts.
// Code under test: cfeminter.BeginBlocker (abci.go), Keeper.Mint / mint, GetCurrentInflation, Minter.CalculateInflation and the three
// CalculateInflation implementations, AmountToMint, InitGenesis / ExportGenesis, GenesisState.Validate (as the precondition).

import (
	sdk "github.com/cosmos/cosmos-sdk/types"
	"github.com/chain4energy/c4e-chain/x/cfeminter/keeper"
	"github.com/chain4energy/c4e-chain/x/cfeminter/types"
	authtypes "github.com/cosmos/cosmos-sdk/x/auth/types"
	paramtypes "github.com/cosmos/cosmos-sdk/x/params/types"
)

func verifMinterModuleKeeper() keeper.Keeper {
	verifNewWorld()
	W.auth.addPerm(types.ModuleName, authtypes.Minter, authtypes.Burner, authtypes.Staking)
	W.auth.addPerm(verifCollector, authtypes.Burner)
	return *keeper.NewKeeper(verifCodec{}, &verifStoreKey{types.StoreKey}, &verifStoreKey{types.MemStoreKey}, paramtypes.Subspace{}, W.bank, verifStaking{}, verifCollector, "gov")
}

// verifC10Genesis: any genesis accepted by GenesisState.Validate within the magnitudes of the statement. The minter state is NOT
// assumed to be consistent with the schedule: governance can move start / end times and amounts at any moment, so the last block
// time, the amount minted so far and the remainders are arbitrary non-negative values and the sequence id is any existing period.
func verifC10Genesis() (types.GenesisState, verifSched, int) {
	vFirstIds = []uint32{1, 4}
	nmax := 2
	var K int64 = 2
	if verif_tier() > 0 {
		nmax, K = 3, 3
	}
	n := verif_choice("n", nmax) + 1
	kinds := verifKinds(n, verif_choice("kinds", verifKindCount(n)))
	s := verifSchedule(n, kinds)
	s.params.MintDenom = verif_str_in("mintDenom", "uc4e", "a", "u/:._-")
	cur := verif_choice("cur", n)
	st := types.MinterState{SequenceId: verifSeq(cur), AmountMinted: verif_int_range("minted", "0", "1e40"),
		RemainderToMint: verif_dec_range("rtm", "0", "9999999999999999999"), RemainderFromPreviousMinter: verif_dec_range("carry", "0", "9999999999999999999"),
		LastMintBlockTime: verif_time("t_last")}
	g := types.GenesisState{Params: s.params, MinterState: st}
	verif_assume(g.Validate() == nil) // the code's own validity predicate
	T := verif_time("T")
	for i := 0; i < n; i++ {
		s.assumeSteps(i, T, K)
	}
	return g, s, cur
}

func Verif_C10_minter_begin_block() {
	g, _, _ := verifC10Genesis()
	k := verifMinterModuleKeeper()
	ctx := verifCtx(g.MinterState.LastMintBlockTime)
	InitGenesis(ctx, k, W.auth, g)
	W.bank.fund(verifModuleAddr("someone"), g.Params.MintDenom, verif_int_range("supply", "0", "1e30"))
	verif_knob("unroll", 8)
	BeginBlocker(ctx.WithBlockTime(verif_time("T")), k)
	// the step is inductive: the state the block leaves behind is again a validation-accepted state with small remainders,
	// i.e. a pre-state this harness covers
	st := k.GetMinterState(ctx)
	g2 := types.GenesisState{Params: k.GetParams(ctx), MinterState: st}
	verif_assert(g2.Validate() == nil, "the minter state after the block is again accepted by validation (assumed of the pre-state of every block)")
	ten := sdk.NewDec(10)
	verif_assert(st.RemainderToMint.LT(ten) && st.RemainderFromPreviousMinter.LT(ten), "remainders stay below ten base units (assumed of the pre-state of every block)")
	verif_reach("block processed")
}

// A state restored from an exported genesis behaves like the original: export -> validate -> init -> begin block does not panic.
func Verif_C10_minter_export_import() {
	g, _, _ := verifC10Genesis()
	k := verifMinterModuleKeeper()
	ctx := verifCtx(g.MinterState.LastMintBlockTime)
	InitGenesis(ctx, k, W.auth, g)
	exp := ExportGenesis(ctx, k)
	verif_assert(exp.Validate() == nil, "an exported genesis passes validation")
	k2 := verifMinterModuleKeeper()
	ctx2 := verifCtx(g.MinterState.LastMintBlockTime)
	InitGenesis(ctx2, k2, W.auth, *exp)
	verif_knob("unroll", 8)
	BeginBlocker(ctx2.WithBlockTime(verif_time("T")), k2)
	verif_reach("block processed after import")
}
