package keeper

// C07 — split / move of vesting is exact and preserves the release schedule.
// Code under test: msgServer.SplitVesting / MoveAvailableVesting / MoveAvailableVestingByDenoms, splitVestingCoins,
// UnlockUnbondedContinuousVestingAccountCoins, newContinuousVestingAccount and — executed from the SDK's source —
// ContinuousVestingAccount.GetVestedCoins / GetVestingCoins / LockedCoins, BaseVestingAccount.LockedCoinsFromVesting.
//
// The elapsed fraction (T-start)/(end-start) is case-split over concrete dyadic rationals (symbolic x symbolic x symbolic products
// with a symbolic time fraction are undecided by every solver available here); amounts stay symbolic in [1, 1e30].

import (
	"github.com/chain4energy/c4e-chain/x/cfevesting/types"
	sdk "github.com/cosmos/cosmos-sdk/types"
	authtypes "github.com/cosmos/cosmos-sdk/x/auth/types"
	vestingtypes "github.com/cosmos/cosmos-sdk/x/auth/vesting/types"
)

const (
	c07Start = int64(1700000000)
	c07Len   = int64(1000000) // seconds; the fractions below are exact multiples
	c07From  = "c4e:sender"
	c07To    = "c4e:recipient"
)

// elapsed seconds of the grid: before start, 1/2, 1/4, (thorough: 1/8, 3/4), at/after end
func verifC07Elapsed() int64 {
	grid := []int64{-5, c07Len / 2, c07Len / 4, c07Len + 7}
	if verif_tier() > 0 {
		grid = []int64{-5, 0, c07Len / 2, c07Len / 4, c07Len / 8, 3 * c07Len / 4, c07Len, c07Len + 7}
	}
	return grid[verif_choice("elapsed", len(grid))]
}

func verifC07Sender(ctx sdk.Context, k Keeper) (*vestingtypes.ContinuousVestingAccount, sdk.Coins) {
	ov := verif_int_range("OV", "1", "1e30")
	base := W.auth.NewAccountWithAddress(ctx, verifAddr(c07From)).(*authtypes.BaseAccount)
	cva := vestingtypes.NewContinuousVestingAccountRaw(vestingtypes.NewBaseVestingAccount(base, sdk.NewCoins(sdk.NewCoin(vDenom, ov)), c07Start+c07Len), c07Start)
	if verif_tier() > 0 && verif_choice("delegated", 2) == 1 {
		dv := verif_int_range("delegatedVesting", "1", "1e30")
		verif_assume(dv.LTE(ov))
		cva.DelegatedVesting = sdk.NewCoins(sdk.NewCoin(vDenom, dv))
	}
	W.auth.SetAccount(ctx, cva)
	// the account holds its undelegated original vesting plus any free balance
	free := verif_int_range("freeBalance", "0", "1e30")
	W.bank.fund(verifAddr(c07From), vDenom, ov.Sub(cva.DelegatedVesting.AmountOf(vDenom)).Add(free))
	return cva, cva.OriginalVesting
}

func Verif_C07_split_exact() {
	k := verifVestingKeeper()
	el := verifC07Elapsed()
	ctx := verifCtx(verifUnix(c07Start + el))
	verifSetParams(k, ctx)
	sender, _ := verifC07Sender(ctx, k)
	lockedBefore := sender.LockedCoins(ctx.BlockTime()).AmountOf(vDenom)
	spendBefore := W.bank.SpendableCoins(ctx, verifAddr(c07From)).AmountOf(vDenom)
	U := verif_int_range("U", "1", "1e30")
	verif_assume(U.LTE(lockedBefore)) // any amount up to the locked, undelegated coins
	verif_knob("assert_timeout_ms", 120000)
	_, err := NewMsgServerImpl(k).SplitVesting(sdk.WrapSDKContext(ctx), &types.MsgSplitVesting{FromAddress: c07From, ToAddress: c07To,
		Amount: sdk.Coins{sdk.Coin{Denom: vDenom, Amount: U}}})
	verif_assert(err == nil, "any amount up to the sender's locked, undelegated coins can be split")
	if err != nil {
		return
	}
	s2 := W.auth.GetAccount(ctx, verifAddr(c07From)).(*vestingtypes.ContinuousVestingAccount)
	r := W.auth.GetAccount(ctx, verifAddr(c07To)).(*vestingtypes.ContinuousVestingAccount)
	verif_assert(r != nil && r.OriginalVesting.AmountOf(vDenom).Equal(U), "recipient's original vesting = split amount")
	verif_assert(r.EndTime == sender.EndTime, "recipient keeps the sender's end time")
	wantStart := sender.StartTime
	if ctx.BlockTime().Unix() > wantStart {
		wantStart = ctx.BlockTime().Unix()
	}
	verif_assert(r.StartTime == wantStart, "recipient starts at max(now, sender start)")
	verif_assert(r.LockedCoins(ctx.BlockTime()).AmountOf(vDenom).Equal(U), "recipient's locked coins = split amount")
	lockedAfter := s2.LockedCoins(ctx.BlockTime()).AmountOf(vDenom)
	verif_assert(lockedAfter.Equal(lockedBefore.Sub(U)), "sender's locked coins drop by exactly the split amount")
	verif_assert(W.bank.SpendableCoins(ctx, verifAddr(c07From)).AmountOf(vDenom).Equal(spendBefore), "sender's spendable balance is unchanged")
	verif_assert(verifBalOf(c07To, vDenom).Equal(U), "recipient holds exactly the split amount")
	verif_reach("split checked")
}

// ---- move: MoveAvailableVesting (everything locked) and MoveAvailableVestingByDenoms (the listed denominations, in any order,
// possibly naming a denomination in which nothing is locked) over a sender vesting two denominations.

const c07Denom2 = "uatom"

func verifC07Sender2(ctx sdk.Context, delegated bool) *vestingtypes.ContinuousVestingAccount {
	ov1 := verif_int_range("OV1", "1", "1e30")
	ov2 := verif_int_range("OV2", "1", "1e30")
	base := W.auth.NewAccountWithAddress(ctx, verifAddr(c07From)).(*authtypes.BaseAccount)
	ov := sdk.NewCoins(sdk.NewCoin(vDenom, ov1), sdk.NewCoin(c07Denom2, ov2))
	cva := vestingtypes.NewContinuousVestingAccountRaw(vestingtypes.NewBaseVestingAccount(base, ov, c07Start+c07Len), c07Start)
	// part of the first denomination may be delegated while still vesting (it stays with the sender; only the locked,
	// undelegated remainder can be moved)
	dv := sdk.ZeroInt()
	if delegated {
		dv = verif_int_range("delegatedVesting", "1", "1e30")
		verif_assume(dv.LTE(ov1))
		cva.DelegatedVesting = sdk.NewCoins(sdk.NewCoin(vDenom, dv))
	}
	W.auth.SetAccount(ctx, cva)
	W.bank.fund(verifAddr(c07From), vDenom, ov1.Sub(dv).Add(verif_int_range("free1", "0", "1e30")))
	W.bank.fund(verifAddr(c07From), c07Denom2, ov2.Add(verif_int_range("free2", "0", "1e30")))
	return cva
}

func Verif_C07_move() {
	k := verifVestingKeeper()
	grid := []int64{-5, c07Len / 2, c07Len / 4}
	el := grid[verif_choice("elapsed", len(grid))]
	ctx := verifCtx(verifUnix(c07Start + el))
	verifSetParams(k, ctx)
	// delegated vesting: before the start of the schedule only (quick tier; the products with a time fraction are slow), and only
	// for the whole-account move and the two-denomination list
	which := verif_choice("message", 8)
	delegated := false
	if el < 0 && (which == 7 || which == 2) {
		delegated = verif_choice("delegated", 2) == 1
	}
	sender := verifC07Sender2(ctx, delegated)
	denoms := []string{vDenom, c07Denom2}
	lockedBefore := sender.LockedCoins(ctx.BlockTime())
	spendBefore := W.bank.SpendableCoins(ctx, verifAddr(c07From))
	// which denominations the message selects
	lists := [][]string{{vDenom}, {c07Denom2}, {vDenom, c07Denom2}, {c07Denom2, vDenom}, {"unknown", vDenom}, {vDenom, "unknown", c07Denom2}, {c07Denom2, "unknown"}}
	sel := map[string]bool{}
	var err error
	verif_knob("assert_timeout_ms", 120000)
	if which == len(lists) {
		sel[vDenom], sel[c07Denom2] = true, true
		_, err = NewMsgServerImpl(k).MoveAvailableVesting(sdk.WrapSDKContext(ctx), &types.MsgMoveAvailableVesting{FromAddress: c07From, ToAddress: c07To})
	} else {
		for _, d := range lists[which] {
			sel[d] = true
		}
		_, err = NewMsgServerImpl(k).MoveAvailableVestingByDenoms(sdk.WrapSDKContext(ctx), &types.MsgMoveAvailableVestingByDenoms{FromAddress: c07From, ToAddress: c07To, Denoms: lists[which]})
	}
	anyLocked := false
	for _, d := range denoms {
		if sel[d] && lockedBefore.AmountOf(d).IsPositive() {
			anyLocked = true
		}
	}
	if !anyLocked {
		// nothing is locked (and undelegated) in any selected denomination: there is nothing to move
		verif_assert(err != nil, "a move of nothing is refused")
		verif_reach("move of nothing refused")
		return
	}
	verif_assert(err == nil, "locked coins of the selected denominations can always be moved")
	if err != nil {
		return
	}
	s2 := W.auth.GetAccount(ctx, verifAddr(c07From)).(*vestingtypes.ContinuousVestingAccount)
	r := W.auth.GetAccount(ctx, verifAddr(c07To)).(*vestingtypes.ContinuousVestingAccount)
	verif_assert(r != nil, "the recipient vesting account exists")
	verif_assert(r.EndTime == sender.EndTime, "recipient keeps the sender's end time")
	lockedAfter := s2.LockedCoins(ctx.BlockTime())
	rLocked := r.LockedCoins(ctx.BlockTime())
	for _, d := range denoms {
		if sel[d] {
			verif_assert(lockedAfter.AmountOf(d).IsZero(), "move: the sender's locked coins drop to zero for every selected denomination")
			verif_assert(rLocked.AmountOf(d).Equal(lockedBefore.AmountOf(d)), "move: the recipient's locked coins equal what the sender had locked, per selected denomination")
			verif_assert(verifBalOf(c07To, d).Equal(lockedBefore.AmountOf(d)), "move: the recipient holds exactly the moved amount")
		} else {
			verif_assert(lockedAfter.AmountOf(d).Equal(lockedBefore.AmountOf(d)), "move: a denomination that was not selected stays locked at the sender")
			verif_assert(rLocked.AmountOf(d).IsZero() && verifBalOf(c07To, d).IsZero(), "move: the recipient gets nothing of a denomination that was not selected")
		}
		verif_assert(W.bank.SpendableCoins(ctx, verifAddr(c07From)).AmountOf(d).Equal(spendBefore.AmountOf(d)), "move: the sender's spendable balance is unchanged")
	}
	verif_reach("move checked")
}

// ---- later times: after a split the two accounts together keep locked what the sender alone would have had locked.
// (now, later) pairs are chosen so that the elapsed fractions of the sender at both instants and of the recipient at the later
// instant are dyadic.
func Verif_C07_later_conservation() {
	k := verifVestingKeeper()
	pairs := [][2]int64{{-5, c07Len / 2}, {c07Len / 2, 3 * c07Len / 4}}
	if verif_tier() > 0 {
		pairs = append(pairs, [2]int64{c07Len / 4, 5 * c07Len / 8}, [2]int64{c07Len / 2, c07Len + 7}, [2]int64{-5, c07Len / 4}, [2]int64{0, c07Len / 2},
			[2]int64{c07Len / 2, 5 * c07Len / 8}, [2]int64{c07Len / 4, c07Len})
	}
	pr := pairs[verif_choice("instants", len(pairs))]
	ctx := verifCtx(verifUnix(c07Start + pr[0]))
	later := verifUnix(c07Start + pr[1])
	verifSetParams(k, ctx)
	sender, _ := verifC07Sender(ctx, k)
	// what the sender alone would still have vesting at the later instant. Vesting coins, not bank-locked coins: with delegated
	// vesting the bank's LockedCoins is max(vesting - delegated, 0), which is not additive across the two accounts (the delegated part
	// stays with the sender); without delegation the two notions coincide.
	alone := sender.GetVestingCoins(later).AmountOf(vDenom)
	lockedNow := sender.LockedCoins(ctx.BlockTime()).AmountOf(vDenom)
	U := verif_int_range("U", "1", "1e30")
	verif_assume(U.LTE(lockedNow))
	verif_knob("assert_timeout_ms", 120000)
	_, err := NewMsgServerImpl(k).SplitVesting(sdk.WrapSDKContext(ctx), &types.MsgSplitVesting{FromAddress: c07From, ToAddress: c07To,
		Amount: sdk.Coins{sdk.Coin{Denom: vDenom, Amount: U}}})
	if err != nil {
		return // (Verif_C07_split_exact shows that the split succeeds)
	}
	s2 := W.auth.GetAccount(ctx, verifAddr(c07From)).(*vestingtypes.ContinuousVestingAccount)
	r := W.auth.GetAccount(ctx, verifAddr(c07To)).(*vestingtypes.ContinuousVestingAccount)
	together := s2.GetVestingCoins(later).AmountOf(vDenom).Add(r.GetVestingCoins(later).AmountOf(vDenom))
	verif_assert(together.Sub(alone).Abs().LTE(sdk.NewInt(2)), "at a later time the two accounts together have still vesting what the sender alone would have had (within 2 base units)")
	verif_reach("later instant checked")
}
