package verifpkg

// Model of x/bank and x/auth written in Go (executed symbolically). It mirrors
// cosmos-sdk v0.46.10 x/bank/keeper {send,keeper,view}.go: check-then-write transfers,
// module-account permission panics, account auto-creation on first receipt, vesting locks.

import (
	"cosmossdk.io/math"
	sdk "github.com/cosmos/cosmos-sdk/types"
	authtypes "github.com/cosmos/cosmos-sdk/x/auth/types"
	vestexported "github.com/cosmos/cosmos-sdk/x/auth/vesting/exported"
)

type verifBal struct {
	addr  string
	denom string
	amt   math.Int
}

type verifSupply struct {
	denom string
	amt   math.Int
}

type verifBankCall struct {
	op   string
	from string
	to   string
	amt  sdk.Coins
	ok   bool
}

type verifBank struct {
	bals     []verifBal
	supply   []verifSupply
	calls    []verifBankCall
	blocked  []string
	failAll  bool // when set, every transfer / burn fails
	maxFaults int // when > 0, only the first maxFaults calls consult a fault flag
	faults   bool // when set, every transfer / burn consults a fresh symbolic fault flag
	nfault   int
	faultLog []bool
	denoms   []string // denom universe for GetAllBalances
}

type verifAccEntry struct {
	addr string
	acc  authtypes.AccountI
}

type verifPerm struct {
	name  string
	perms []string
}

type verifAuth struct {
	accs    []verifAccEntry
	perms   []verifPerm
	nextNum uint64
}

func verifAddrKey(a sdk.AccAddress) string { return verif_bytes_str(a) }

func verifModuleAddr(name string) sdk.AccAddress { return sdk.AccAddress([]byte("mod:" + name)) }

//verif:model github.com/cosmos/cosmos-sdk/x/auth/types.NewModuleAddress
func model_NewModuleAddress(name string) sdk.AccAddress { return verifModuleAddr(name) }

// ---------------------------------------------------------------- auth

func (a *verifAuth) addPerm(name string, perms ...string) {
	a.perms = append(a.perms, verifPerm{name, perms})
}

func (a *verifAuth) permsOf(name string) ([]string, bool) {
	for _, p := range a.perms {
		if p.name == name {
			return p.perms, true
		}
	}
	return nil, false
}

func (a *verifAuth) find(key string) int {
	for i := range a.accs {
		if a.accs[i].addr == key {
			return i
		}
	}
	return -1
}

func (a *verifAuth) GetAccount(ctx sdk.Context, addr sdk.AccAddress) authtypes.AccountI {
	if i := a.find(verifAddrKey(addr)); i >= 0 {
		return a.accs[i].acc
	}
	return nil
}

func (a *verifAuth) HasAccount(ctx sdk.Context, addr sdk.AccAddress) bool {
	return a.find(verifAddrKey(addr)) >= 0
}

func (a *verifAuth) SetAccount(ctx sdk.Context, acc authtypes.AccountI) {
	key := verifAddrKey(acc.GetAddress())
	if i := a.find(key); i >= 0 {
		a.accs[i].acc = acc
		return
	}
	a.accs = append(a.accs, verifAccEntry{key, acc})
}

func (a *verifAuth) NewAccountWithAddress(ctx sdk.Context, addr sdk.AccAddress) authtypes.AccountI {
	acc := &authtypes.BaseAccount{}
	if err := acc.SetAddress(addr); err != nil {
		panic(err)
	}
	return a.NewAccount(ctx, acc)
}

func (a *verifAuth) NewAccount(ctx sdk.Context, acc authtypes.AccountI) authtypes.AccountI {
	a.nextNum++
	if err := acc.SetAccountNumber(1000 + a.nextNum); err != nil {
		panic(err)
	}
	return acc
}

func (a *verifAuth) GetModuleAddress(name string) sdk.AccAddress {
	if _, ok := a.permsOf(name); !ok {
		return nil
	}
	return verifModuleAddr(name)
}

func (a *verifAuth) GetModuleAccount(ctx sdk.Context, name string) authtypes.ModuleAccountI {
	perms, ok := a.permsOf(name)
	if !ok {
		return nil
	}
	addr := verifModuleAddr(name)
	if i := a.find(verifAddrKey(addr)); i >= 0 {
		macc, ok := a.accs[i].acc.(authtypes.ModuleAccountI)
		if !ok {
			panic("account is not a module account")
		}
		return macc
	}
	macc := authtypes.NewEmptyModuleAccount(name, perms...)
	maccI := (a.NewAccount(ctx, macc)).(authtypes.ModuleAccountI)
	a.SetModuleAccount(ctx, maccI)
	return maccI
}

func (a *verifAuth) SetModuleAccount(ctx sdk.Context, macc authtypes.ModuleAccountI) {
	a.SetAccount(ctx, macc)
}

// ---------------------------------------------------------------- bank

func (b *verifBank) fault() bool {
	if b.failAll {
		return true
	}
	if !b.faults {
		return false
	}
	b.nfault++
	if b.maxFaults > 0 && b.nfault > b.maxFaults {
		return false
	}
	var f bool
	switch b.nfault {
	case 1:
		f = verif_bool("bankfault_1")
	case 2:
		f = verif_bool("bankfault_2")
	case 3:
		f = verif_bool("bankfault_3")
	case 4:
		f = verif_bool("bankfault_4")
	case 5:
		f = verif_bool("bankfault_5")
	case 6:
		f = verif_bool("bankfault_6")
	case 7:
		f = verif_bool("bankfault_7")
	case 8:
		f = verif_bool("bankfault_8")
	default:
		f = false
	}
	b.faultLog = append(b.faultLog, f)
	return f
}

func (b *verifBank) balIdx(addr, denom string) int {
	for i := range b.bals {
		if b.bals[i].denom == denom && b.bals[i].addr == addr {
			return i
		}
	}
	return -1
}

func (b *verifBank) balance(addr string, denom string) math.Int {
	if i := b.balIdx(addr, denom); i >= 0 {
		return b.bals[i].amt
	}
	return sdk.ZeroInt()
}

func (b *verifBank) setBalance(addr string, denom string, amt math.Int) {
	if i := b.balIdx(addr, denom); i >= 0 {
		b.bals[i].amt = amt
		return
	}
	b.bals = append(b.bals, verifBal{addr, denom, amt})
}

func (b *verifBank) supplyOf(denom string) math.Int {
	for _, s := range b.supply {
		if s.denom == denom {
			return s.amt
		}
	}
	return sdk.ZeroInt()
}

func (b *verifBank) setSupply(denom string, amt math.Int) {
	for i := range b.supply {
		if b.supply[i].denom == denom {
			b.supply[i].amt = amt
			return
		}
	}
	b.supply = append(b.supply, verifSupply{denom, amt})
}

func (b *verifBank) addDenom(d string) {
	for _, x := range b.denoms {
		if x == d {
			return
		}
	}
	b.denoms = append(b.denoms, d)
}

// fund credits an account and the supply (harness set-up only).
func (b *verifBank) fund(addr sdk.AccAddress, denom string, amt math.Int) {
	b.addDenom(denom)
	k := verifAddrKey(addr)
	b.setBalance(k, denom, b.balance(k, denom).Add(amt))
	b.setSupply(denom, b.supplyOf(denom).Add(amt))
}

func (b *verifBank) GetBalance(ctx sdk.Context, addr sdk.AccAddress, denom string) sdk.Coin {
	return sdk.Coin{Denom: denom, Amount: b.balance(verifAddrKey(addr), denom)}
}

func (b *verifBank) GetAllBalances(ctx sdk.Context, addr sdk.AccAddress) sdk.Coins {
	k := verifAddrKey(addr)
	res := sdk.NewCoins()
	for _, d := range b.denoms {
		amt := b.balance(k, d)
		if amt.IsPositive() {
			res = res.Add(sdk.Coin{Denom: d, Amount: amt})
		}
	}
	return res
}

func (b *verifBank) GetSupply(ctx sdk.Context, denom string) sdk.Coin {
	return sdk.Coin{Denom: denom, Amount: b.supplyOf(denom)}
}

func (b *verifBank) LockedCoins(ctx sdk.Context, addr sdk.AccAddress) sdk.Coins {
	acc := W.auth.GetAccount(ctx, addr)
	if acc != nil {
		vacc, ok := acc.(vestexported.VestingAccount)
		if ok {
			return vacc.LockedCoins(ctx.BlockTime())
		}
	}
	return sdk.NewCoins()
}

func (b *verifBank) SpendableCoins(ctx sdk.Context, addr sdk.AccAddress) sdk.Coins {
	total := b.GetAllBalances(ctx, addr)
	locked := b.LockedCoins(ctx, addr)
	spendable, hasNeg := total.SafeSub(locked...)
	if hasNeg {
		return sdk.NewCoins()
	}
	return spendable
}

func (b *verifBank) IsSendEnabledCoins(ctx sdk.Context, coins ...sdk.Coin) error { return nil }

func (b *verifBank) BlockedAddr(addr sdk.AccAddress) bool {
	k := verifAddrKey(addr)
	for _, x := range b.blocked {
		if x == k {
			return true
		}
	}
	return false
}

func (b *verifBank) subUnlocked(ctx sdk.Context, addr sdk.AccAddress, amt sdk.Coins) error {
	if !amt.IsValid() {
		return verifErr("invalid coins")
	}
	locked := b.LockedCoins(ctx, addr)
	k := verifAddrKey(addr)
	// x/bank writes denom by denom; a later denom failing leaves earlier ones written inside the
	// message's cache context, which baseapp discards. The model checks all denoms first (atomic failure).
	for _, coin := range amt {
		balance := b.balance(k, coin.Denom)
		lockedAmt := locked.AmountOf(coin.Denom)
		spendable := balance.Sub(lockedAmt)
		if spendable.LT(coin.Amount) {
			return verifErr("insufficient funds")
		}
	}
	for _, coin := range amt {
		b.setBalance(k, coin.Denom, b.balance(k, coin.Denom).Sub(coin.Amount))
	}
	return nil
}

func (b *verifBank) addCoins(addr sdk.AccAddress, amt sdk.Coins) error {
	if !amt.IsValid() {
		return verifErr("invalid coins")
	}
	k := verifAddrKey(addr)
	for _, coin := range amt {
		b.addDenom(coin.Denom)
		b.setBalance(k, coin.Denom, b.balance(k, coin.Denom).Add(coin.Amount))
	}
	return nil
}

func (b *verifBank) log(op string, from, to sdk.AccAddress, amt sdk.Coins, ok bool) {
	b.calls = append(b.calls, verifBankCall{op, verifAddrKey(from), verifAddrKey(to), amt, ok})
}

func (b *verifBank) SendCoins(ctx sdk.Context, from, to sdk.AccAddress, amt sdk.Coins) error {
	if b.fault() {
		b.log("send", from, to, amt, false)
		return verifErr("injected bank failure")
	}
	if !amt.IsValid() {
		b.log("send", from, to, amt, false)
		return verifErr("invalid coins")
	}
	if err := b.subUnlocked(ctx, from, amt); err != nil {
		b.log("send", from, to, amt, false)
		return err
	}
	if err := b.addCoins(to, amt); err != nil {
		panic("verif: addCoins failed after subUnlocked")
	}
	if !W.auth.HasAccount(ctx, to) {
		W.auth.SetAccount(ctx, W.auth.NewAccountWithAddress(ctx, to))
	}
	b.log("send", from, to, amt, true)
	return nil
}

func (b *verifBank) SendCoinsFromModuleToAccount(ctx sdk.Context, senderModule string, recipient sdk.AccAddress, amt sdk.Coins) error {
	sender := W.auth.GetModuleAddress(senderModule)
	if sender == nil {
		panic("module account " + senderModule + " does not exist")
	}
	if b.BlockedAddr(recipient) {
		b.log("send", sender, recipient, amt, false)
		return verifErr("recipient is not allowed to receive funds")
	}
	return b.SendCoins(ctx, sender, recipient, amt)
}

func (b *verifBank) SendCoinsFromModuleToModule(ctx sdk.Context, senderModule, recipientModule string, amt sdk.Coins) error {
	sender := W.auth.GetModuleAddress(senderModule)
	if sender == nil {
		panic("module account " + senderModule + " does not exist")
	}
	racc := W.auth.GetModuleAccount(ctx, recipientModule)
	if racc == nil {
		panic("module account " + recipientModule + " does not exist")
	}
	return b.SendCoins(ctx, sender, racc.GetAddress(), amt)
}

func (b *verifBank) SendCoinsFromAccountToModule(ctx sdk.Context, sender sdk.AccAddress, recipientModule string, amt sdk.Coins) error {
	racc := W.auth.GetModuleAccount(ctx, recipientModule)
	if racc == nil {
		panic("module account " + recipientModule + " does not exist")
	}
	return b.SendCoins(ctx, sender, racc.GetAddress(), amt)
}

func (b *verifBank) MintCoins(ctx sdk.Context, moduleName string, amounts sdk.Coins) error {
	acc := W.auth.GetModuleAccount(ctx, moduleName)
	if acc == nil {
		panic("module account " + moduleName + " does not exist")
	}
	if !acc.HasPermission(authtypes.Minter) {
		panic("module account " + moduleName + " does not have permissions to mint tokens")
	}
	if err := b.addCoins(acc.GetAddress(), amounts); err != nil {
		b.log("mint", nil, acc.GetAddress(), amounts, false)
		return err
	}
	for _, c := range amounts {
		b.setSupply(c.Denom, b.supplyOf(c.Denom).Add(c.Amount))
	}
	b.log("mint", nil, acc.GetAddress(), amounts, true)
	return nil
}

func (b *verifBank) BurnCoins(ctx sdk.Context, moduleName string, amounts sdk.Coins) error {
	acc := W.auth.GetModuleAccount(ctx, moduleName)
	if acc == nil {
		panic("module account " + moduleName + " does not exist")
	}
	if !acc.HasPermission(authtypes.Burner) {
		panic("module account " + moduleName + " does not have permissions to burn tokens")
	}
	if b.fault() {
		b.log("burn", acc.GetAddress(), nil, amounts, false)
		return verifErr("injected bank failure")
	}
	if err := b.subUnlocked(ctx, acc.GetAddress(), amounts); err != nil {
		b.log("burn", acc.GetAddress(), nil, amounts, false)
		return err
	}
	for _, c := range amounts {
		b.setSupply(c.Denom, b.supplyOf(c.Denom).Sub(c.Amount))
	}
	b.log("burn", acc.GetAddress(), nil, amounts, true)
	return nil
}

// ---------------------------------------------------------------- staking (minter)

type verifStaking struct{}

func (verifStaking) BondedRatio(ctx sdk.Context) sdk.Dec {
	return verif_dec_range("bonded_ratio", "0", "1000000000000000000")
}
