package verifpkg

// Harness API. Every function below is intercepted by the symbolic executor (by name); the bodies are
// never executed symbolically and only exist so that the file compiles as ordinary Go.

import (
	"time"

	"cosmossdk.io/math"
	sdk "github.com/cosmos/cosmos-sdk/types"
)

func verif_assume(c bool)                { panic("verif") }
func verif_assert(c bool, label string)  { panic("verif") }
func verif_reach(label string)           { panic("verif") }
func verif_fail(label string)            { panic("verif") }
func verif_finding(id string)            { panic("verif") }
func verif_tier() int                    { panic("verif") }
func verif_int(name string) math.Int     { panic("verif") }
func verif_int_nil() math.Int            { panic("verif") }
func verif_dec_nil() sdk.Dec             { panic("verif") }
func verif_dec(name string) sdk.Dec      { panic("verif") }
func verif_i64(name string) int64        { panic("verif") }
func verif_bool(name string) bool        { panic("verif") }
func verif_str(name string) string       { panic("verif") }
func verif_time(name string) time.Time   { panic("verif") }
func verif_time_ns(t time.Time) int64    { panic("verif") }
func verif_ctx() sdk.Context             { panic("verif") }
func verif_concrete_str(s string) string { panic("verif") }
func verif_is_blob(bz []byte) bool       { panic("verif") }
func verif_last_panic() string           { panic("verif") }
func verif_bytes(s string) []byte        { panic("verif") }
func verif_bytes_str(b []byte) string    { panic("verif") }
func verif_valid_denom(s string) bool    { panic("verif") }
func verif_str_drop(s string, n int) string { panic("verif") }
func verif_int_of(v int64) math.Int      { panic("verif") }
func verif_dec_raw(v math.Int) sdk.Dec   { panic("verif") }
func verif_dec_rawint(d sdk.Dec) math.Int { panic("verif") }
func verif_catch(f func()) bool          { panic("verif") }
func verif_knob(name string, v int64)    { panic("verif") }
func verif_log(args ...interface{})      { panic("verif") }
func verif_emit(name string, v interface{}) { panic("verif") }

func verif_int_range(name, lo, hi string) math.Int                { panic("verif") }
func verif_dec_range(name, lo, hi string) sdk.Dec                 { panic("verif") }
func verif_i64_range(name string, lo, hi int64) int64             { panic("verif") }
func verif_str_in(name string, pool ...string) string             { panic("verif") }
func verif_concrete_int(v int64, lo, hi int64) int64              { panic("verif") }
func verif_choice(name string, n int) int                         { panic("verif") }
func verif_time_range(name string, lo, hi int64) time.Time        { panic("verif") }
func verif_time_unit(name string, unit, lo, hi int64) time.Time   { panic("verif") }
func verif_ctx_get(ctx sdk.Context, key string) interface{}       { panic("verif") }
func verif_ctx_with(ctx sdk.Context, key string, v interface{}) sdk.Context { panic("verif") }
func verif_blob(msg interface{}) []byte                           { panic("verif") }
func verif_unblob(bz []byte, ptr interface{}) bool                { panic("verif") }
func verif_deep_equal(a, b interface{}) bool                      { panic("verif") }
func verif_deep_copy(a interface{}) interface{}                   { panic("verif") }
func verif_uf_str(name string, args ...interface{}) string        { panic("verif") }
func verif_uf_bool(name string, args ...interface{}) bool         { panic("verif") }
func verif_uf_int(name string, args ...interface{}) int64         { panic("verif") }
func verif_type_name(v interface{}) string                        { panic("verif") }
