package verifpkg

// Environment model written in Go and executed symbolically together with the code under test:
// sdk.Context, KV stores, codec, logger, event manager. State lives in the package-level world W.

import (
	"context"
	"io"
	"time"

	"github.com/cosmos/cosmos-sdk/codec"
	codectypes "github.com/cosmos/cosmos-sdk/codec/types"
	storetypes "github.com/cosmos/cosmos-sdk/store/types"
	sdk "github.com/cosmos/cosmos-sdk/types"
	"github.com/gogo/protobuf/proto"
	"github.com/tendermint/tendermint/libs/log"
	tmproto "github.com/tendermint/tendermint/proto/tendermint/types"
)

type verifWorld struct {
	stores []*verifStore
	events []proto.Message
	bank   *verifBank
	auth   *verifAuth
}

var W *verifWorld

func verifNewWorld() *verifWorld {
	w := &verifWorld{}
	w.bank = &verifBank{}
	w.auth = &verifAuth{}
	W = w
	return w
}

func (w *verifWorld) store(name string) *verifStore {
	for _, s := range w.stores {
		if s.name == name {
			return s
		}
	}
	s := &verifStore{name: name}
	w.stores = append(w.stores, s)
	return s
}

// ---------------------------------------------------------------- store keys

type verifStoreKey struct{ name string }

func (k *verifStoreKey) Name() string   { return k.name }
func (k *verifStoreKey) String() string { return "verifStoreKey{" + k.name + "}" }

// ---------------------------------------------------------------- KV store

type verifKV struct {
	k string
	v []byte
}

type verifStore struct {
	name string
	kv   []verifKV
}

func (s *verifStore) find(k string) int {
	for i := range s.kv {
		if s.kv[i].k == k {
			return i
		}
	}
	return -1
}

func (s *verifStore) Get(key []byte) []byte {
	if len(key) == 0 {
		panic("store: key is empty")
	}
	if i := s.find(verif_bytes_str(key)); i >= 0 {
		return s.kv[i].v
	}
	return nil
}

func (s *verifStore) Has(key []byte) bool {
	if len(key) == 0 {
		panic("store: key is empty")
	}
	return s.find(verif_bytes_str(key)) >= 0
}

func (s *verifStore) Set(key, value []byte) {
	if len(key) == 0 {
		panic("store: key is empty")
	}
	if value == nil {
		panic("store: value is nil")
	}
	k := verif_bytes_str(key)
	if i := s.find(k); i >= 0 {
		s.kv[i].v = value
		return
	}
	s.kv = append(s.kv, verifKV{k, value})
}

func (s *verifStore) Delete(key []byte) {
	if len(key) == 0 {
		panic("store: key is empty")
	}
	if i := s.find(verif_bytes_str(key)); i >= 0 {
		n := make([]verifKV, 0, len(s.kv))
		n = append(n, s.kv[:i]...)
		n = append(n, s.kv[i+1:]...)
		s.kv = n
	}
}

// sortedRange returns the entries with start <= key < end in ascending key order.
func (s *verifStore) sortedRange(start, end []byte) []verifKV {
	var out []verifKV
	hasStart, hasEnd := len(start) > 0, end != nil
	var ss, es string
	if hasStart {
		ss = verif_bytes_str(start)
	}
	if hasEnd {
		es = verif_bytes_str(end)
	}
	for _, e := range s.kv {
		if hasStart && e.k < ss {
			continue
		}
		if hasEnd && !(e.k < es) {
			continue
		}
		// insertion in order
		pos := len(out)
		for pos > 0 && e.k < out[pos-1].k {
			pos--
		}
		n := make([]verifKV, 0, len(out)+1)
		n = append(n, out[:pos]...)
		n = append(n, e)
		n = append(n, out[pos:]...)
		out = n
	}
	return out
}

func (s *verifStore) Iterator(start, end []byte) storetypes.Iterator {
	return &verifIter{items: s.sortedRange(start, end), start: start, end: end}
}

func (s *verifStore) ReverseIterator(start, end []byte) storetypes.Iterator {
	fw := s.sortedRange(start, end)
	rev := make([]verifKV, len(fw))
	for i := range fw {
		rev[len(fw)-1-i] = fw[i]
	}
	return &verifIter{items: rev, start: start, end: end}
}

func (s *verifStore) GetStoreType() storetypes.StoreType { return storetypes.StoreTypeIAVL }
func (s *verifStore) CacheWrap() storetypes.CacheWrap    { panic("verif: CacheWrap not modelled") }
func (s *verifStore) CacheWrapWithTrace(w io.Writer, tc storetypes.TraceContext) storetypes.CacheWrap {
	panic("verif: CacheWrap not modelled")
}

type verifIter struct {
	items      []verifKV
	pos        int
	start, end []byte
}

func (it *verifIter) Domain() ([]byte, []byte) { return it.start, it.end }
func (it *verifIter) Valid() bool              { return it.pos < len(it.items) }
func (it *verifIter) Next() {
	if it.pos >= len(it.items) {
		panic("iterator: Next on invalid iterator")
	}
	it.pos++
}
func (it *verifIter) Key() []byte {
	if it.pos >= len(it.items) {
		panic("iterator: Key on invalid iterator")
	}
	return verif_bytes(it.items[it.pos].k)
}
func (it *verifIter) Value() []byte {
	if it.pos >= len(it.items) {
		panic("iterator: Value on invalid iterator")
	}
	return it.items[it.pos].v
}
func (it *verifIter) Error() error { return nil }
func (it *verifIter) Close() error { return nil }

// ---------------------------------------------------------------- codec

type verifCodec struct{}

func (verifCodec) Marshal(o codec.ProtoMarshaler) ([]byte, error) { return verif_blob(o), nil }
func (verifCodec) MustMarshal(o codec.ProtoMarshaler) []byte     { return verif_blob(o) }
func (verifCodec) MarshalLengthPrefixed(o codec.ProtoMarshaler) ([]byte, error) {
	return verif_blob(o), nil
}
func (verifCodec) MustMarshalLengthPrefixed(o codec.ProtoMarshaler) []byte { return verif_blob(o) }
func (verifCodec) Unmarshal(bz []byte, ptr codec.ProtoMarshaler) error {
	if !verif_unblob(bz, ptr) {
		return verifErr("unmarshal: bytes are not an encoding of the requested message type")
	}
	return nil
}
func (verifCodec) MustUnmarshal(bz []byte, ptr codec.ProtoMarshaler) {
	if !verif_unblob(bz, ptr) {
		panic("unmarshal: bytes are not an encoding of the requested message type")
	}
}
func (c verifCodec) UnmarshalLengthPrefixed(bz []byte, ptr codec.ProtoMarshaler) error {
	return c.Unmarshal(bz, ptr)
}
func (c verifCodec) MustUnmarshalLengthPrefixed(bz []byte, ptr codec.ProtoMarshaler) {
	c.MustUnmarshal(bz, ptr)
}
func (verifCodec) MarshalInterface(i proto.Message) ([]byte, error) { return verif_blob(i), nil }
func (verifCodec) UnmarshalInterface(bz []byte, ptr interface{}) error {
	panic("verif: UnmarshalInterface not modelled")
}
func (verifCodec) UnpackAny(any *codectypes.Any, iface interface{}) error {
	panic("verif: UnpackAny not modelled")
}

type verifError struct{ msg string }

func (e *verifError) Error() string { return e.msg }
func verifErr(msg string) error     { return &verifError{msg} }

// ---------------------------------------------------------------- logger

type verifLogger struct{}

func (verifLogger) Debug(msg string, keyvals ...interface{}) {}
func (verifLogger) Info(msg string, keyvals ...interface{})  {}
func (verifLogger) Error(msg string, keyvals ...interface{}) {}
func (l verifLogger) With(keyvals ...interface{}) log.Logger { return l }

// ---------------------------------------------------------------- sdk.Context

func verifCtx(t time.Time) sdk.Context {
	return verif_ctx_with(verif_ctx(), "time", t)
}

//verif:model (github.com/cosmos/cosmos-sdk/types.Context).BlockTime
func model_ctx_BlockTime(ctx sdk.Context) time.Time { return verif_ctx_get(ctx, "time").(time.Time) }

//verif:model (github.com/cosmos/cosmos-sdk/types.Context).WithBlockTime
func model_ctx_WithBlockTime(ctx sdk.Context, t time.Time) sdk.Context {
	return verif_ctx_with(ctx, "time", t)
}

//verif:model (github.com/cosmos/cosmos-sdk/types.Context).BlockHeight
func model_ctx_BlockHeight(ctx sdk.Context) int64 {
	h := verif_ctx_get(ctx, "height")
	if h == nil {
		return 1
	}
	return h.(int64)
}

//verif:model (github.com/cosmos/cosmos-sdk/types.Context).WithBlockHeight
func model_ctx_WithBlockHeight(ctx sdk.Context, h int64) sdk.Context {
	return verif_ctx_with(ctx, "height", h)
}

//verif:model (github.com/cosmos/cosmos-sdk/types.Context).BlockHeader
func model_ctx_BlockHeader(ctx sdk.Context) tmproto.Header {
	var h tmproto.Header
	h.Time = verif_ctx_get(ctx, "time").(time.Time)
	h.Height = model_ctx_BlockHeight(ctx)
	return h
}

//verif:model (github.com/cosmos/cosmos-sdk/types.Context).KVStore
func model_ctx_KVStore(ctx sdk.Context, key storetypes.StoreKey) storetypes.KVStore {
	return W.store(key.Name())
}

//verif:model (github.com/cosmos/cosmos-sdk/types.Context).Logger
func model_ctx_Logger(ctx sdk.Context) log.Logger { return verifLogger{} }

//verif:model (github.com/cosmos/cosmos-sdk/types.Context).EventManager
func model_ctx_EventManager(ctx sdk.Context) *sdk.EventManager { return nil }

//verif:model (github.com/cosmos/cosmos-sdk/types.Context).TxBytes
func model_ctx_TxBytes(ctx sdk.Context) []byte {
	b := verif_ctx_get(ctx, "txbytes")
	if b == nil {
		return nil
	}
	return b.([]byte)
}

//verif:model (*github.com/cosmos/cosmos-sdk/types.EventManager).EmitTypedEvent
func model_em_EmitTypedEvent(em *sdk.EventManager, ev proto.Message) error {
	// the real event manager serialises the message at call time: keep a snapshot, not the caller's pointer
	W.events = append(W.events, verif_deep_copy(ev).(proto.Message))
	return nil
}

//verif:model (*github.com/cosmos/cosmos-sdk/types.EventManager).EmitEvent
func model_em_EmitEvent(em *sdk.EventManager, ev sdk.Event) {}

//verif:model (*github.com/cosmos/cosmos-sdk/types.EventManager).EmitEvents
func model_em_EmitEvents(em *sdk.EventManager, ev sdk.Events) {}

type verifGoCtx struct{ ctx sdk.Context }

func (verifGoCtx) Deadline() (time.Time, bool)       { return time.Time{}, false }
func (verifGoCtx) Done() <-chan struct{}             { return nil }
func (verifGoCtx) Err() error                        { return nil }
func (verifGoCtx) Value(key interface{}) interface{} { return nil }

//verif:model github.com/cosmos/cosmos-sdk/types.WrapSDKContext
func model_WrapSDKContext(ctx sdk.Context) context.Context { return verifGoCtx{ctx} }

//verif:model github.com/cosmos/cosmos-sdk/types.UnwrapSDKContext
func model_UnwrapSDKContext(c context.Context) sdk.Context { return c.(verifGoCtx).ctx }
