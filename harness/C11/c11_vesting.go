package keeper

// C11 (cfevesting part) — self-composition of vesting message handlers.

import (
	"github.com/chain4energy/c4e-chain/x/cfevesting/types"
	sdk "github.com/cosmos/cosmos-sdk/types"
)

func Verif_C11_vesting_handlers() {
	op := verif_choice("op", 3)
	amount := verif_int_range("amount", "0", vMaxAmt)
	restart := verif_bool("restart")
	type obs struct {
		pools  types.AccountVestingPoolsList
		traces []types.VestingAccountTrace
		calls  []verifBankCall
		nev    int
		errNil bool
	}
	run := func() obs {
		k := verifVestingKeeper()
		ctx := verifCtx(verif_time_range("now", vVT0, vVT1))
		verifSetParams(k, ctx)
		verifVestingType(k, ctx, "vt")
		verifOwnerPools(k, ctx, 2, "vt")
		W.bank.fund(verifAddr(vOwner), vDenom, verif_int_range("ownerBalance", "0", vMaxAmt))
		ms := NewMsgServerImpl(k)
		g := sdk.WrapSDKContext(ctx)
		var err error
		switch op {
		case 0:
			_, err = ms.WithdrawAllAvailable(g, &types.MsgWithdrawAllAvailable{Owner: vOwner})
		case 1:
			_, err = ms.SendToVestingAccount(g, &types.MsgSendToVestingAccount{Owner: vOwner, ToAddress: "c4e:recipient", VestingPoolName: "pool-a", Amount: amount, RestartVesting: restart})
		case 2:
			_, err = ms.MoveAvailableVestingByDenoms(g, &types.MsgMoveAvailableVestingByDenoms{FromAddress: vOwner, ToAddress: "c4e:recipient", Denoms: []string{vDenom, "uother"}})
		}
		return obs{pools: k.GetAllAccountVestingPools(ctx), traces: k.GetAllVestingAccountTrace(ctx), calls: W.bank.calls, nev: len(W.events), errNil: err == nil}
	}
	a := run()
	b := run()
	same := a.errNil == b.errNil && a.nev == b.nev && len(a.calls) == len(b.calls) && verif_deep_equal(a.pools, b.pools) && verif_deep_equal(a.traces, b.traces)
	for i := range a.calls {
		if i < len(b.calls) {
			same = same && a.calls[i].op == b.calls[i].op && a.calls[i].to == b.calls[i].to && verif_deep_equal(a.calls[i].amt, b.calls[i].amt)
		}
	}
	verif_assert(same, "two replicas process the message identically")
	verif_reach("vesting handler compared")
}
