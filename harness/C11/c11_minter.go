package cfeminter

// C11 (cfeminter part) — self-composition of the minter's BeginBlocker (time.Now() is a fresh value in each run).

import (
	"github.com/chain4energy/c4e-chain/x/cfeminter/types"
)

func Verif_C11_minter_block() {
	verif_knob("ignore_overflow", 1)
	g, _, _ := verifC10Genesis()
	T := verif_time("T")
	type obs struct {
		state   types.MinterState
		hist    []*types.MinterState
		calls   []verifBankCall
		nevents int
		event   *types.Mint
	}
	run := func() obs {
		k := verifMinterModuleKeeper()
		ctx := verifCtx(g.MinterState.LastMintBlockTime)
		InitGenesis(ctx, k, W.auth, g)
		verif_knob("unroll", 8)
		BeginBlocker(ctx.WithBlockTime(T), k)
		o := obs{state: k.GetMinterState(ctx), hist: k.GetAllMinterStateHistory(ctx), calls: W.bank.calls, nevents: len(W.events)}
		for _, ev := range W.events {
			if m, ok := ev.(*types.Mint); ok {
				o.event = m
			}
		}
		return o
	}
	a := run()
	b := run()
	same := verif_deep_equal(a.state, b.state) && verif_deep_equal(a.hist, b.hist) && a.nevents == b.nevents && len(a.calls) == len(b.calls)
	if a.event != nil && b.event != nil {
		same = same && a.event.Amount == b.event.Amount && a.event.Inflation == b.event.Inflation && a.event.BondedRatio == b.event.BondedRatio
	}
	for i := range a.calls {
		if i < len(b.calls) {
			same = same && a.calls[i].op == b.calls[i].op && verif_deep_equal(a.calls[i].amt, b.calls[i].amt)
		}
	}
	verif_assert(same, "two replicas end the block with the same minter state, history, transfers and event")
	verif_reach("minter block compared")
}
