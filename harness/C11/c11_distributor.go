package keeper

// C11 (cfedistributor part) — replicas reach the same state: self-composition. The same entry point is run twice from the same
// symbolic world; every `range` over a map forks over all iteration orders independently in the two runs and every time.Now() is a
// fresh value, and the observable results (store content, bank calls, events, error nil-ness) must coincide.

import (
	"github.com/chain4energy/c4e-chain/x/cfedistributor/types"
	sdk "github.com/cosmos/cosmos-sdk/types"
)

type c11Obs struct {
	params  types.Params
	states  []types.State
	calls   []verifBankCall
	nevents int
	errNil  bool
}

func verifC11Observe(k Keeper, ctx sdk.Context, err error) c11Obs {
	return c11Obs{params: k.GetParams(ctx), states: k.GetAllStates(ctx), calls: W.bank.calls, nevents: len(W.events), errNil: err == nil}
}

func verifC11Same(a, b c11Obs) bool {
	if a.errNil != b.errNil || a.nevents != b.nevents || len(a.calls) != len(b.calls) || len(a.states) != len(b.states) {
		return false
	}
	ok := verif_deep_equal(a.params, b.params) && verif_deep_equal(a.states, b.states)
	for i := range a.calls {
		ok = ok && a.calls[i].op == b.calls[i].op && a.calls[i].from == b.calls[i].from && a.calls[i].to == b.calls[i].to && a.calls[i].ok == b.calls[i].ok && verif_deep_equal(a.calls[i].amt, b.calls[i].amt)
	}
	return ok
}

// Validation (the only map `range` of the custom modules lives in validateLastOccurrence) and the update handler.
func Verif_C11_distributor_validation_and_update() {
	var subs []types.SubDistributor
	for i := 0; i < verif_choice("newN", 3); i++ {
		subs = append(subs, verifSubFrom(i, 1, verif_choice("withShare"+string(rune('1'+i)), 2) == 1, c13Src, c13Dst))
	}
	run := func() c11Obs {
		k := verifDistKeeper()
		ctx := verifCtx(verif_time_range("now", 1600000000, 1900000000))
		_, err := NewMsgServerImpl(k).UpdateParams(sdk.WrapSDKContext(ctx), &types.MsgUpdateParams{Authority: "c4e:gov", SubDistributors: subs})
		return verifC11Observe(k, ctx, err)
	}
	a := run()
	b := run()
	verif_assert(verifC11Same(a, b), "two replicas accept / reject the same update and store the same parameters")
	verif_reach("validation compared")
}

func Verif_C11_distributor_block() {
	p := verifC03Config()
	run := func() c11Obs {
		k := verifDistKeeper()
		ctx := verifCtx(verif_time_range("now", 1600000000, 1900000000))
		if err := k.SetParams(ctx, p); err != nil {
			verif_fail("SetParams rejects parameters that Validate accepted")
		}
		verifC03Books(k, ctx, p)
		verifBeginBlock(ctx, k)
		return verifC11Observe(k, ctx, nil)
	}
	a := run()
	b := run()
	verif_assert(verifC11Same(a, b), "two replicas end the block with the same states, transfers and events")
	verif_reach("block compared")
}
