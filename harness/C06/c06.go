package keeper

// C06 — pool time-lock. Code under test: CalculateWithdrawable, Keeper.WithdrawAllAvailable, msgServer.WithdrawAllAvailable,
// Keeper.VestingPools (query), Get/SetAccountVestingPools, VestingPool.GetCurrentlyLocked.

import (
	"github.com/chain4energy/c4e-chain/x/cfevesting/types"
	sdk "github.com/cosmos/cosmos-sdk/types"
)

func verifC06Pools() int {
	if verif_tier() > 0 {
		return 3
	}
	return 2
}

func Verif_C06_withdraw() {
	vLockEndMax = 20000000000 // lock ends up to the year 2603: "locked forever" pools whose end does not fit in int64 nanoseconds
	k := verifVestingKeeper()
	T := verif_time_range("now", vVT0, vVT1)
	ctx := verifCtx(T)
	verifSetParams(k, ctx)
	n := verif_choice("npools", verifC06Pools()) + 1
	avp := verifOwnerPools(k, ctx, n, "vt")
	ownerBefore := verif_int_range("ownerBalance", "0", vMaxAmt)
	W.bank.fund(verifAddr(vOwner), vDenom, ownerBefore)
	modBefore := verifModuleBal(vDenom)
	supplyBefore := W.bank.supplyOf(vDenom)

	// the query answers, taken in the same block before the withdrawal
	q, qerr := k.VestingPools(sdk.WrapSDKContext(ctx), &types.QueryVestingPoolsRequest{Owner: vOwner})
	verif_assert(qerr == nil && q != nil && len(q.VestingPools) == n, "query lists every pool")

	resp, err := NewMsgServerImpl(k).WithdrawAllAvailable(sdk.WrapSDKContext(ctx), &types.MsgWithdrawAllAvailable{Owner: vOwner})
	verif_assert(err == nil && resp != nil, "withdraw-all succeeds when pools exist")
	after, found := k.GetAccountVestingPools(ctx, vOwner)
	verif_assert(found && len(after.VestingPools) == n, "pools still stored")
	sum := sdk.ZeroInt()
	for i, p := range avp.VestingPools {
		a := after.VestingPools[i]
		verif_assert(a.Name == p.Name && a.InitiallyLocked.Equal(p.InitiallyLocked) && a.Sent.Equal(p.Sent) && a.LockEnd.Equal(p.LockEnd), "pool identity, amount, sent and lock end untouched")
		if T.Before(p.LockEnd) {
			verif_assert(a.Withdrawn.Equal(p.Withdrawn), "nothing leaves a pool before its lock end")
			verif_assert(q.VestingPools[i].Withdrawable == sdk.ZeroInt().String(), "query: nothing withdrawable before lock end")
		} else {
			sum = sum.Add(p.GetCurrentlyLocked())
			verif_assert(a.GetCurrentlyLocked().IsZero(), "a matured pool is emptied")
			verif_assert(a.Withdrawn.Equal(p.Withdrawn.Add(p.GetCurrentlyLocked())), "withdrawn grows by the still-locked remainder")
			verif_assert(q.VestingPools[i].Withdrawable == p.GetCurrentlyLocked().String(), "query: withdrawable = what the withdrawal pays for this pool")
		}
	}
	verif_assert(resp.Withdrawn.Denom == vDenom && resp.Withdrawn.Amount.Equal(sum), "response = sum of matured remainders")
	verif_assert(verifBalOf(vOwner, vDenom).Equal(ownerBefore.Add(sum)), "owner received exactly that")
	verif_assert(verifModuleBal(vDenom).Equal(modBefore.Sub(sum)), "module account paid exactly that")
	verif_assert(W.bank.supplyOf(vDenom).Equal(supplyBefore), "supply unchanged")
	verif_assert(verifModuleBal(vDenom).GTE(verifSumLocked(after)), "module account still backs the owner's pools")

	// a repeated withdrawal in the same block pays nothing
	resp2, err2 := NewMsgServerImpl(k).WithdrawAllAvailable(sdk.WrapSDKContext(ctx), &types.MsgWithdrawAllAvailable{Owner: vOwner})
	verif_assert(err2 == nil && resp2.Withdrawn.Amount.IsZero(), "second withdrawal pays zero")
	verif_assert(verifBalOf(vOwner, vDenom).Equal(ownerBefore.Add(sum)), "owner balance unchanged by the second withdrawal")
	verif_reach("withdraw checked")
}

// Without pools the message fails and moves nothing.
func Verif_C06_no_pools() {
	k := verifVestingKeeper()
	ctx := verifCtx(verif_time_range("now", vVT0, vVT1))
	verifSetParams(k, ctx)
	W.bank.fund(verifModuleAddr(types.ModuleName), vDenom, verif_int_range("othersLocked", "0", vMaxAmt))
	before := verifModuleBal(vDenom)
	if verif_choice("emptyList", 2) == 1 {
		k.SetAccountVestingPools(ctx, types.AccountVestingPools{Owner: vOwner})
	}
	_, err := NewMsgServerImpl(k).WithdrawAllAvailable(sdk.WrapSDKContext(ctx), &types.MsgWithdrawAllAvailable{Owner: vOwner})
	verif_assert(err != nil, "withdraw-all without pools is rejected")
	verif_assert(verifModuleBal(vDenom).Equal(before), "nothing moved")
	verif_reach("no pools checked")
}
