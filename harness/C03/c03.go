package keeper

// C03 — the distributor's books always match the coins it holds.
// Code under test: everything in keeper/distribution.go that BeginBlocker runs (the block loop is replicated verbatim from abci.go,
// which lives in the parent package), GetAllStates/SetState, State.GetStateKey, Params.Validate -> SubDistributor.Validate,
// ValidateSubDistributors, and the two registered invariants from invariants.go run on the post-state.

import (
	"cosmossdk.io/math"
	"github.com/chain4energy/c4e-chain/x/cfedistributor/types"
	sdk "github.com/cosmos/cosmos-sdk/types"
	authtypes "github.com/cosmos/cosmos-sdk/x/auth/types"
	vestingtypes "github.com/cosmos/cosmos-sdk/x/auth/vesting/types"
)

// verifBeginBlock is x/cfedistributor/abci.go BeginBlocker (without telemetry / event emission error logging).
func verifBeginBlock(ctx sdk.Context, k Keeper) {
	subDistributors := k.GetParams(ctx).SubDistributors
	states := k.GetAllStates(ctx)
	for _, subDistributor := range subDistributors {
		allCoinsToDistribute := k.PrepareCoinsToDistribute(subDistributor.Sources, ctx, states, subDistributor.Name)
		if allCoinsToDistribute.IsZero() {
			continue
		}
		newStates, distributions, burn := k.StartDistributionProcess(ctx, &states, allCoinsToDistribute, subDistributor)
		for _, distribution := range distributions {
			_ = ctx.EventManager().EmitTypedEvent(distribution)
		}
		if burn != nil {
			_ = ctx.EventManager().EmitTypedEvent(burn)
		}
		states = *newStates
	}
	k.SendCoinsFromStates(ctx, states)
}

// verifC03Config: a validation-accepted configuration of 1 or 2 sub-distributors (sizes by tier).
// The thorough tier widens ONE dimension per path (their product does not finish): vC03Dim = 0 quick bounds,
// 1 = degenerate books (destinations without state / with empty leftovers, zero inflows), 2 = a second sub-distributor (one source, no
// named share) in generic position.
var vC03Dim = 0

func verifC03Config() types.Params {
	var subs []types.SubDistributor
	nsub := 1
	vC03Dim = 0
	if verif_tier() > 0 {
		vC03Dim = verif_choice("thoroughDimension", 3)
		if vC03Dim == 2 {
			nsub = 2
		}
	}
	for i := 0; i < nsub; i++ {
		nsrc := verif_choice("nsrc"+string(rune('1'+i)), 2) + 1
		withShare := verif_choice("withShare"+string(rune('1'+i)), 2) == 1
		var sd types.SubDistributor
		if vC03Dim == 2 {
			// two chained sub-distributors: the first has one source, the second takes the internal account or MAIN and pays a module / base account
			if i == 0 {
				sd = verifSub(i, 1, withShare)
			} else {
				sd = verifSubFrom(i, 1, false, []types.Account{{Type: types.Main}, {Type: types.InternalAccount, Id: "int1"}},
					[]types.Account{{Type: types.ModuleAccount, Id: dGBC}, {Type: types.BaseAccount, Id: dBase2}})
			}
		} else {
			sd = verifSub(i, nsrc, withShare)
		}
		verif_assume(sd.Validate() == nil)
		subs = append(subs, sd)
	}
	p := types.Params{SubDistributors: subs}
	verif_assume(p.Validate() == nil) // the code's own validity predicate
	return p
}

// A quantity is either exactly zero or an arbitrary strictly positive value: the zero case is split off by construction
// (a concrete fork) instead of being rediscovered by the solver at every IsZero test inside the Coins / DecCoins code.
func verifPosOrZeroInt(name string) math.Int {
	if vC03Dim == 1 && verif_choice("zero_"+name, 2) == 1 {
		return sdk.ZeroInt()
	}
	return verif_int_range(name, "1", dMaxAmt)
}

func verifPosOrZeroDec(name string) sdk.Dec {
	if vC03Dim == 1 && verif_choice("zero_"+name, 2) == 1 {
		return sdk.ZeroDec()
	}
	return verif_dec_range(name, "1", "2e36")
}

// verifC03Books installs an arbitrary pre-state satisfying Inv_d for one denom: for the burn account and for every destination
// of the configuration an (optional) state with non-negative remains, an integral sum, and a main-account balance
// equal to that sum plus what arrived since the last block; every non-main source holds an arbitrary inflow.
func verifC03Books(k Keeper, ctx sdk.Context, p types.Params) {
	var states []types.State
	seen := map[string]bool{}
	// destinations either have no state yet (first block), a state with empty remains (after an exact payout),
	// or a state with arbitrary positive remains
	// (quick tier: generic position only — positive remains and inflows; the degenerate modes run in the thorough tier)
	mode := 2
	if vC03Dim == 1 {
		mode = verif_choice("stateMode", 3)
	}
	rem := func(tag string) sdk.DecCoins {
		if mode == 1 {
			return sdk.DecCoins{}
		}
		return verifDecCoins(dDenom, verif_dec_range("rem_"+tag, "1", "2e36"))
	}
	add := func(a types.Account, tag string) {
		if a.Type == types.Main || mode == 0 {
			return
		}
		key := a.GetAccountKey()
		if seen[key] {
			return
		}
		seen[key] = true
		acc := a
		states = append(states, types.State{Account: &acc, Remains: rem(tag)})
	}
	for i, sd := range p.SubDistributors {
		id := string(rune('1' + i))
		add(sd.Destinations.PrimaryShare, "p"+id)
		for _, sh := range sd.Destinations.Shares {
			add(sh.Destination, "s"+id)
		}
	}
	if mode != 0 {
		states = append(states, types.State{Account: &types.Account{}, Burn: true, Remains: rem("burn")})
	}
	sum := verifRemainsSum(states, dDenom)
	verif_assume(sum.Equal(sum.TruncateDec())) // sum of remains is a whole number of coins (holds after every block)
	for _, st := range states {
		k.SetState(ctx, st)
	}
	W.bank.fund(verifModuleAddr(dMain), dDenom, sum.TruncateInt().Add(verifPosOrZeroInt("mainInflow")))
	funded := map[string]bool{}
	for i, sd := range p.SubDistributors {
		for j, src := range sd.Sources {
			addr, ok := verifAccountAddr(*src)
			if !ok || src.Type == types.Main || (src.Type == types.ModuleAccount && src.Id == dMain) {
				continue
			}
			key := verifAddrKey(addr)
			if funded[key] {
				continue
			}
			funded[key] = true
			W.bank.fund(addr, dDenom, verifPosOrZeroInt("inflow"+string(rune('1'+i))+string(rune('a'+j))))
		}
	}
}

func verifC03Post(k Keeper, ctx sdk.Context) {
	states := k.GetAllStates(ctx)
	for _, st := range states {
		verif_assert(!st.Remains.AmountOf(dDenom).IsNegative(), "recorded leftovers are non-negative")
	}
	sum := verifRemainsSum(states, dDenom)
	verif_assert(sum.Equal(sum.TruncateDec()), "leftovers sum to a whole number of coins")
	verif_assert(sum.TruncateInt().Equal(verifMainBal(dDenom)), "sum of leftovers = balance of the distributor main account")
	_, b1 := NonNegativeCoinStateInvariant(k)(ctx)
	_, b2 := StateSumBalanceCheckInvariant(k)(ctx)
	verif_assert(!b1 && !b2, "the module's registered invariants hold after the block")
}

// One block from an arbitrary consistent state, any accepted configuration, any inflow.
func Verif_C03_block_keeps_books() {
	k := verifDistKeeper()
	ctx := verifCtx(verif_time_range("now", 1600000000, 1900000000))
	p := verifC03Config()
	if err := k.SetParams(ctx, p); err != nil {
		verif_fail("SetParams rejects parameters that Validate accepted")
	}
	verifC03Books(k, ctx, p)
	verifC03RefusingAccounts(ctx, p)
	supplyBefore := W.bank.supplyOf(dDenom)
	verifBeginBlock(ctx, k)
	verifC03Post(k, ctx)
	burned := sdk.ZeroInt()
	for _, c := range W.bank.calls {
		verif_assert(c.op == "send" || c.op == "burn", "the distributor only transfers and burns")
		if c.op == "burn" && c.ok {
			burned = burned.Add(c.amt.AmountOf(dDenom))
		}
	}
	verif_assert(W.bank.supplyOf(dDenom).Equal(supplyBefore.Sub(burned)), "supply shrinks exactly by what was burned")
	verif_reach("block checked")
}

// calibration only: counts accepted configurations
func Verif_C03_zz_count_configs() {
	verifDistKeeper()
	verifC03Config()
	verif_reach("config")
}

// calibration only: one fixed configuration
func Verif_C03_zz_one_config() {
	k := verifDistKeeper()
	ctx := verifCtx(verif_time_range("now", 1600000000, 1900000000))
	a := types.Account{Type: types.Main}
	sd := types.SubDistributor{Name: "sd1", Sources: []*types.Account{&a}, Destinations: types.Destinations{
		PrimaryShare: types.Account{Type: types.ModuleAccount, Id: dGBC}, BurnShare: verif_dec_range("burn1", "0", "999999999999999999"),
		Shares: []*types.DestinationShare{{Name: "share1", Share: verif_dec_range("share1", "0", "999999999999999999"), Destination: types.Account{Type: types.BaseAccount, Id: dBase2}}}}}
	p := types.Params{SubDistributors: []types.SubDistributor{sd}}
	verif_assume(p.Validate() == nil)
	_ = k.SetParams(ctx, p)
	verifC03Books(k, ctx, p)
	verifBeginBlock(ctx, k)
	verifC03Post(k, ctx)
	verif_reach("one config")
}

// Lemma L1 — one sub-distributor step from an ARBITRARY mid-block state (any states, incl. an internal account whose remains are
// still pending, and any unaccounted inflow U = balance(main) - sum(remains) >= 0):
//   U' = U - [MAIN in sources] * U + (amounts whose destination is MAIN), no state negative,
// i.e. every coin taken from a source is booked exactly once. Chains of any length follow by induction over the steps of a block.
func Verif_C03_step_lemma() {
	k := verifDistKeeper()
	ctx := verifCtx(verif_time_range("now", 1600000000, 1900000000))
	nsrc := verif_choice("nsrc1", 2) + 1
	sd := verifSub(0, nsrc, verif_choice("withShare1", 2) == 1)
	verif_assume(sd.Validate() == nil)
	// a sub-distributor never lists the same account twice, and MAIN is not both source and destination (cross validation)
	closed := types.Params{SubDistributors: []types.SubDistributor{sd}}
	_ = closed
	seen := map[string]bool{}
	dup := false
	note := func(a types.Account) {
		key := a.Type + "-" + a.Id
		if a.Type == types.Main {
			key = types.Main
		}
		if seen[key] {
			dup = true
		}
		seen[key] = true
	}
	for _, s := range sd.Sources {
		note(*s)
	}
	note(sd.Destinations.PrimaryShare)
	for _, sh := range sd.Destinations.Shares {
		note(sh.Destination)
	}
	verif_assume(!dup)

	// arbitrary mid-block books: a state with positive remains for every pool destination and the burn account
	var states []types.State
	for i, a := range dDestPool {
		if a.Type == types.Main || (a.Type == types.ModuleAccount && a.Id == dMain) {
			continue
		}
		acc := a
		states = append(states, types.State{Account: &acc, Remains: verifDecCoins(dDenom, verif_dec_range("rem"+string(rune('a'+i)), "1", "2e36"))})
	}
	// sources that are internal accounts (or base / module accounts with re-queued remains) may have a state too
	for j, src := range sd.Sources {
		if src.Type == types.Main {
			continue
		}
		has := false
		for _, st := range states {
			if st.Account.Type == src.Type && st.Account.Id == src.Id {
				has = true
			}
		}
		if !has {
			acc := *src
			states = append(states, types.State{Account: &acc, Remains: verifDecCoins(dDenom, verif_dec_range("remsrc"+string(rune('a'+j)), "1", "2e36"))})
		}
	}
	states = append(states, types.State{Account: &types.Account{}, Burn: true, Remains: verifDecCoins(dDenom, verif_dec_range("rem_burn", "1", "2e36"))})
	sumBefore := verifRemainsSum(states, dDenom)
	U := verif_dec_range("unaccounted", "0", "2e36")
	total := sumBefore.Add(U)
	verif_assume(total.Equal(total.TruncateDec()))
	W.bank.fund(verifModuleAddr(dMain), dDenom, total.TruncateInt())
	inflow := sdk.ZeroDec()
	hasMain := false
	for j, src := range sd.Sources {
		if src.Type == types.Main {
			hasMain = true
			continue
		}
		if addr, ok := verifAccountAddr(*src); ok {
			amt := verif_int_range("inflow"+string(rune('a'+j)), "1", dMaxAmt)
			W.bank.fund(addr, dDenom, amt)
			inflow = inflow.Add(sdk.NewDecFromInt(amt))
		}
	}

	coins := k.PrepareCoinsToDistribute(sd.Sources, ctx, states, sd.Name)
	out := &states
	if !coins.IsZero() {
		out, _, _ = k.StartDistributionProcess(ctx, &states, coins, sd)
	}
	after := *out
	for _, st := range after {
		verif_assert(!st.Remains.AmountOf(dDenom).IsNegative(), "no state is negative after the step")
	}
	toMain := sdk.ZeroDec()
	c := coins.AmountOf(dDenom)
	for _, sh := range sd.Destinations.Shares {
		if sh.Destination.Type == types.Main {
			toMain = toMain.Add(c.MulTruncate(sh.Share))
		}
	}
	if sd.Destinations.PrimaryShare.Type == types.Main {
		others := c.MulTruncate(sd.Destinations.BurnShare)
		for _, sh := range sd.Destinations.Shares {
			others = others.Add(c.MulTruncate(sh.Share))
		}
		toMain = toMain.Add(c.Sub(others))
	}
	expectU := U.Add(toMain)
	if hasMain {
		expectU = toMain
	}
	Uafter := sdk.NewDecFromInt(verifMainBal(dDenom)).Sub(verifRemainsSum(after, dDenom))
	verif_assert(Uafter.Equal(expectU), "unaccounted coins in the main account: U' = U - [MAIN source]*U + amounts sent to MAIN (nothing counted twice, nothing lost)")
	for _, src := range sd.Sources {
		if addr, ok := verifAccountAddr(*src); ok && src.Type != types.Main {
			verif_assert(W.bank.balance(verifAddrKey(addr), dDenom).IsZero(), "a swept source is empty")
		}
	}
	verif_reach("step checked")
}


// Validation only checks that a base-account id is a bech32 address. The address may be one the bank refuses to pay (a blocked
// address, e.g. a module account's) or, as a source, one whose coins are locked (a vesting account): both are chosen per path.
var vC03Refusing = true

func verifC03RefusingAccounts(ctx sdk.Context, p types.Params) {
	if !vC03Refusing || vC03Dim != 0 {
		return
	}
	usesDst, usesSrc := false, false
	for _, sd := range p.SubDistributors {
		if sd.Destinations.PrimaryShare.Type == types.BaseAccount && sd.Destinations.PrimaryShare.Id == dBase2 {
			usesDst = true
		}
		for _, sh := range sd.Destinations.Shares {
			if sh.Destination.Type == types.BaseAccount && sh.Destination.Id == dBase2 {
				usesDst = true
			}
		}
		for _, src := range sd.Sources {
			if src.Type == types.BaseAccount && src.Id == dBase1 {
				usesSrc = true
			}
		}
	}
	if usesDst && verif_choice("baseDestinationBlocked", 2) == 1 {
		W.bank.blocked = append(W.bank.blocked, verifAddrKey(verifAddr(dBase2)))
	}
	if usesSrc && verif_choice("baseSourceLocked", 2) == 1 {
		base := authtypes.NewBaseAccountWithAddress(verifAddr(dBase1))
		lockedAll, _ := sdk.NewIntFromString("4000000000000000000")
		W.auth.SetAccount(ctx, vestingtypes.NewContinuousVestingAccountRaw(
			vestingtypes.NewBaseVestingAccount(base, sdk.NewCoins(sdk.NewCoin(dDenom, lockedAll)), 4000000000), 3000000000))
	}
}
