package keeper

// C04 — every destination receives exactly its configured share.
// Code under test: StartDistributionProcess, calculatePercentage, addSharesTo*State, findAccountState, findBurnState,
// PrepareCoinsToDistribute, prepareLeftCoinToDistribute (+ the block loop of C03 for the source-order twin).

import (
	"github.com/chain4energy/c4e-chain/x/cfedistributor/types"
	sdk "github.com/cosmos/cosmos-sdk/types"
)

func verifStateRemains(states []types.State, burn bool, a types.Account) sdk.Dec {
	r := sdk.ZeroDec()
	for _, st := range states {
		if burn {
			if st.Burn {
				r = r.Add(st.Remains.AmountOf(dDenom))
			}
			continue
		}
		if !st.Burn && st.Account != nil && st.Account.Type == a.Type && st.Account.Id == a.Id {
			r = r.Add(st.Remains.AmountOf(dDenom))
		}
	}
	return r
}

// One sub-distributor, arbitrary inflow, arbitrary pre-existing states (incl. a state with the same Id and another Type):
// each destination's state — identified by (Type, Id) — grows by exactly its documented amount.
func Verif_C04_shares_exact() {
	k := verifDistKeeper()
	ctx := verifCtx(verif_time_range("now", 1600000000, 1900000000))
	maxShares := 2 // named shares: 0..1 (quick), 0..2 (thorough)
	if verif_tier() > 0 {
		maxShares = 3
	}
	nshares := verif_choice("nshares", maxShares)
	// the source is MAIN or a module account (a MAIN destination is only accepted when MAIN is not also a source)
	src := dSourcePool[verif_choice("src", 2)]
	sd := types.SubDistributor{Name: "sd1", Sources: []*types.Account{&src}}
	sd.Destinations.PrimaryShare = dDestPool[verif_choice("primary", len(dDestPool))]
	sd.Destinations.BurnShare = verif_dec_range("burn", "0", "999999999999999999")
	for i := 0; i < nshares; i++ {
		id := string(rune('1' + i))
		sd.Destinations.Shares = append(sd.Destinations.Shares, &types.DestinationShare{Name: "share" + id,
			Share: verif_dec_range("share"+id, "0", "999999999999999999"), Destination: dDestPool[verif_choice("shareDst"+id, len(dDestPool))]})
	}
	verif_assume(sd.Validate() == nil)
	// uniqueness of accounts inside one sub-distributor is part of the cross validation; reuse it on a closed configuration
	needMain := src.Type != types.Main
	closing := types.SubDistributor{Name: "closing", Sources: []*types.Account{}, Destinations: types.Destinations{
		PrimaryShare: types.Account{Type: types.ModuleAccount, Id: dGEB}, BurnShare: sdk.ZeroDec()}}
	seenSrc := map[string]bool{}
	addSrc := func(a types.Account) {
		if a.Type != types.InternalAccount && a.Type != types.Main {
			return
		}
		if seenSrc[a.Type+"-"+a.Id] {
			return
		}
		seenSrc[a.Type+"-"+a.Id] = true
		acc := a
		closing.Sources = append(closing.Sources, &acc)
	}
	addSrc(sd.Destinations.PrimaryShare)
	for _, sh := range sd.Destinations.Shares {
		addSrc(sh.Destination)
	}
	if needMain && !seenSrc[types.Main+"-"] {
		closing.Sources = append(closing.Sources, &types.Account{Type: types.Main}) // some sub-distributor must have the MAIN source
	}
	cfg := []types.SubDistributor{sd}
	if len(closing.Sources) > 0 {
		cfg = append(cfg, closing)
	}
	verif_assume(types.Params{SubDistributors: cfg}.Validate() == nil)

	// pre-existing states: optionally one per pool destination (so that equal ids of different types coexist) + burn
	var states []types.State
	if verif_choice("withStates", 2) == 1 {
		for i, a := range dDestPool {
			if a.Type == types.Main {
				continue
			}
			acc := a
			states = append(states, types.State{Account: &acc, Remains: verifDecCoins(dDenom, verif_dec_range("rem"+string(rune('a'+i)), "0", "1e48"))})
		}
		states = append(states, types.State{Account: &types.Account{}, Burn: true, Remains: verifDecCoins(dDenom, verif_dec_range("rem_burn", "0", "1e48"))})
	}
	before := verif_deep_copy(states).([]types.State)
	c := verif_dec_range("inflow", "1", "1e48")
	coins := verifDecCoins(dDenom, c)

	out, _, _ := k.StartDistributionProcess(ctx, &states, coins, sd)
	after := *out

	others := sdk.ZeroDec()
	for _, sh := range sd.Destinations.Shares {
		amt := c.MulTruncate(sh.Share)
		others = others.Add(amt)
		if sh.Destination.Type == types.Main {
			continue // stays in the main account for the next MAIN-source sub-distributor; must not reach the primary destination
		}
		verif_assert(verifStateRemains(after, false, sh.Destination).Equal(verifStateRemains(before, false, sh.Destination).Add(amt)),
			"named share: destination (Type, Id) grows by exactly trunc18(inflow * share)")
	}
	burnAmt := c.MulTruncate(sd.Destinations.BurnShare)
	others = others.Add(burnAmt)
	verif_assert(verifStateRemains(after, true, types.Account{}).Equal(verifStateRemains(before, true, types.Account{}).Add(burnAmt)), "burn state grows by exactly trunc18(inflow * burn share)")
	if sd.Destinations.PrimaryShare.Type != types.Main {
		verif_assert(verifStateRemains(after, false, sd.Destinations.PrimaryShare).Equal(verifStateRemains(before, false, sd.Destinations.PrimaryShare).Add(c.Sub(others))),
			"primary destination receives the remainder: inflow minus all named shares and the burn share")
	}
	// every other pre-existing state is untouched
	for _, st := range before {
		if st.Burn {
			continue
		}
		touched := st.Account.Type == sd.Destinations.PrimaryShare.Type && st.Account.Id == sd.Destinations.PrimaryShare.Id
		for _, sh := range sd.Destinations.Shares {
			if st.Account.Type == sh.Destination.Type && st.Account.Id == sh.Destination.Id {
				touched = true
			}
		}
		if !touched {
			verif_assert(verifStateRemains(after, false, *st.Account).Equal(st.Remains.AmountOf(dDenom)), "a state that is not a destination of this sub-distributor is untouched (also when it shares an Id with one)")
		}
	}
	for _, st := range after {
		verif_assert(!st.Remains.AmountOf(dDenom).IsNegative(), "no destination is left negative")
	}
	verif_reach("shares checked")
}

// The order in which sources are listed does not matter: one block with sources [A, B] and with [B, A] ends in the same books.
func Verif_C04_source_order() {
	ia := verif_choice("srcA", len(dSourcePool))
	ib := verif_choice("srcB", len(dSourcePool))
	if ib <= ia {
		return
	}
	primary := dDestPool[verif_choice("primary", 2)]
	burn := verif_dec_range("burn", "0", "999999999999999999")
	run := func(first, second int) (sdk.Dec, sdk.Dec, sdk.Dec) {
		k := verifDistKeeper()
		ctx := verifCtx(verif_time_range("now", 1600000000, 1900000000))
		a, b := dSourcePool[first], dSourcePool[second]
		sd := types.SubDistributor{Name: "sd1", Sources: []*types.Account{&a, &b}, Destinations: types.Destinations{PrimaryShare: primary, BurnShare: burn}}
		p := types.Params{SubDistributors: []types.SubDistributor{sd}}
		verif_assume(p.Validate() == nil)
		if err := k.SetParams(ctx, p); err != nil {
			verif_fail("SetParams rejects parameters that Validate accepted")
		}
		// same symbolic books in both worlds
		pr := primary
		k.SetState(ctx, types.State{Account: &pr, Remains: verifDecCoins(dDenom, verif_dec_range("remPrimary", "0", "1e48"))})
		sum := verif_dec_range("remPrimary", "0", "1e48")
		verif_assume(sum.Equal(sum.TruncateDec()))
		W.bank.fund(verifModuleAddr(dMain), dDenom, sum.TruncateInt().Add(verif_int_range("mainInflow", "0", dMaxAmt)))
		for i, src := range []types.Account{dSourcePool[ia], dSourcePool[ib]} {
			if addr, ok := verifAccountAddr(src); ok && src.Type != types.Main {
				W.bank.fund(addr, dDenom, verif_int_range("inflow"+string(rune('A'+i)), "0", dMaxAmt))
			}
		}
		verifBeginBlock(ctx, k)
		states := k.GetAllStates(ctx)
		return verifStateRemains(states, false, primary), verifStateRemains(states, true, types.Account{}), sdk.NewDecFromInt(verifBalOfAcc(primary, dDenom))
	}
	p1, b1, bal1 := run(ia, ib)
	p2, b2, bal2 := run(ib, ia)
	verif_assert(p1.Equal(p2) && b1.Equal(b2) && bal1.Equal(bal2), "books and payouts do not depend on the order of the sources")
	verif_reach("order checked")
}

// The payout step never changes what a destination is entitled to: what it has received plus what is still recorded for it is the
// same before and after, whether the bank pays, refuses (blocked address) or fails. Code under test: SendCoinsFromStates,
// sendCoinsToModuleAccount, sendCoinsToBaseAccount, burnCoins.
func Verif_C04_payout_keeps_entitlement() {
	k := verifDistKeeper()
	ctx := verifCtx(verif_time_range("now", 1600000000, 1900000000))
	var states []types.State
	for i, a := range dDestPool {
		if a.Type == types.Main || (a.Type == types.ModuleAccount && a.Id == dMain) {
			continue
		}
		acc := a
		states = append(states, types.State{Account: &acc, Remains: verifDecCoins(dDenom, verif_dec_range("rem"+string(rune('a'+i)), "0", "2e36"))})
	}
	states = append(states, types.State{Account: &types.Account{}, Burn: true, Remains: verifDecCoins(dDenom, verif_dec_range("rem_burn", "0", "2e36"))})
	before := verif_deep_copy(states).([]types.State)
	W.bank.fund(verifModuleAddr(dMain), dDenom, verifRemainsSum(states, dDenom).TruncateInt().Add(verif_int_range("extra", "0", dMaxAmt)))
	if verif_choice("baseDestinationBlocked", 2) == 1 {
		W.bank.blocked = append(W.bank.blocked, verifAddrKey(verifAddr(dBase2)))
	}
	balBefore := make([]sdk.Int, len(before))
	for i, st := range before {
		balBefore[i] = verifBalOfAcc(*st.Account, dDenom)
	}
	W.bank.faults = true
	k.SendCoinsFromStates(ctx, states)
	W.bank.faults = false
	after := k.GetAllStates(ctx)
	for i, st := range before {
		if st.Burn {
			continue
		}
		got := verifBalOfAcc(*st.Account, dDenom).Sub(balBefore[i])
		if st.Account.Type == types.InternalAccount {
			got = sdk.ZeroInt()
		}
		verif_assert(sdk.NewDecFromInt(got).Add(verifStateRemains(after, false, *st.Account)).Equal(st.Remains.AmountOf(dDenom)),
			"payout: received + still recorded = recorded before, for every destination, also when the bank refuses or fails")
		verif_assert(!got.IsNegative(), "payout: no destination loses coins")
	}
	verif_reach("payout entitlement checked")
}
