package keeper

// Schedule builders shared by the cfeminter harnesses (types only, so that the file can be overlaid into x/cfeminter/keeper
// as well as into x/cfeminter).

import (
	"time"

	"cosmossdk.io/math"
	"github.com/chain4energy/c4e-chain/x/cfeminter/types"
	codectypes "github.com/cosmos/cosmos-sdk/codec/types"
	sdk "github.com/cosmos/cosmos-sdk/types"
)

const verifCollector = "distributor_main_account"

const (
	vT0 = 1600000000 // 2020-09-13, lower bound of every instant (unix seconds)
	vT1 = 1900000000 // 2030-03-17, upper bound
)

func verifAny(cfg types.MinterConfigI) *codectypes.Any {
	a, err := codectypes.NewAnyWithValue(cfg)
	if err != nil {
		panic(err)
	}
	return a
}

const (
	kNo  = 0
	kLin = 1
	kExp = 2
)

// verifKinds enumerates the minter-type tuples validation can accept for n periods (the last one
// has no end time and therefore cannot be linear).
func verifKinds(n int, c int) []int {
	last := []int{kNo, kExp}
	k := make([]int, n)
	k[n-1] = last[c%2]
	c /= 2
	for i := n - 2; i >= 0; i-- {
		k[i] = c % 3
		c /= 3
	}
	return k
}

func verifKindCount(n int) int {
	r := 2
	for i := 0; i < n-1; i++ {
		r *= 3
	}
	return r
}

type verifSched struct {
	params types.Params
	kinds  []int
	starts []time.Time // start of period i
}

func idx(i int) string { return string(rune('1' + i)) }

// verifSchedule builds an arbitrary schedule of n periods with the given kinds: symbolic start, end times
// (millisecond aligned), amounts in [0,10^36], multipliers in [0,1], steps in [1s, 10^9 s].
// The first sequence id need not be 1 (validation only asks for a positive first id and consecutive ids; governance may
// prune finished periods): vFirstId is chosen per path by verifSchedule, verifSeq(i) is the id of the i-th period.
var vFirstId uint32 = 1

// vFirstIds: the first ids a harness explores (concrete fork; store keys built from the id stay concrete). Harnesses that
// depend on how the current period is looked up widen it to {1, 4}.
var vFirstIds = []uint32{1}

func verifSeq(i int) uint32 { return vFirstId + uint32(i) }

func verifSchedule(n int, kinds []int) verifSched {
	vFirstId = vFirstIds[verif_choice("firstSequenceId", len(vFirstIds))]
	start := verif_time_unit("start", 1000000, vT0, vT1)
	p := types.Params{MintDenom: "uc4e", StartTime: start}
	s := verifSched{kinds: kinds}
	prev := start
	for i := 0; i < n; i++ {
		m := &types.Minter{SequenceId: verifSeq(i)}
		if i < n-1 {
			e := verif_time_unit("end"+idx(i), 1000000, vT0, vT1)
			m.EndTime = &e
		}
		switch kinds[i] {
		case kNo:
			m.Config = verifAny(&types.NoMinting{})
		case kLin:
			m.Config = verifAny(&types.LinearMinting{Amount: verif_int_range("A"+idx(i), "0", "1e36")})
		case kExp:
			m.Config = verifAny(&types.ExponentialStepMinting{
				Amount:           verif_int_range("A"+idx(i), "1", "1e36"),
				AmountMultiplier: verif_dec_range("mult"+idx(i), "0", "1000000000000000000"),
				StepDuration:     time.Duration(verif_i64_range("step"+idx(i), 1000000000, 1000000000000000000)),
			})
		}
		p.Minters = append(p.Minters, m)
		s.starts = append(s.starts, prev)
		if m.EndTime != nil {
			prev = *m.EndTime
		}
	}
	verif_assume(p.Validate() == nil) // the code's own validity predicate
	// magnitudes of the statement: periods of at least one second
	for i := 0; i < n-1; i++ {
		verif_assume(!p.Minters[i].EndTime.Before(s.starts[i].Add(time.Second)))
	}
	s.params = p
	return s
}

// bound on exponential steps passed inside period i up to instant t
func (s verifSched) assumeSteps(i int, t time.Time, K int64) {
	if s.kinds[i] != kExp {
		return
	}
	cfg := s.params.Minters[i].Config.GetCachedValue().(*types.ExponentialStepMinting)
	now := t
	if e := s.params.Minters[i].EndTime; e != nil && t.After(*e) {
		now = *e
	}
	verif_assume(int64(now.Sub(s.starts[i])) <= K*int64(cfg.StepDuration)+int64(cfg.StepDuration)-1)
}

// ---- independent reference of the documented schedule, in exact integers at 10^-18 resolution

var vE18 = sdk.NewInt(1000000000000000000)

// refCum returns the 10^18-scaled cumulative emission of period i from its start up to t (t clipped to the period).
func (s verifSched) refCum(i int, t time.Time) math.Int {
	m := s.params.Minters[i]
	st := s.starts[i]
	switch s.kinds[i] {
	case kLin:
		cfg := m.Config.GetCachedValue().(*types.LinearMinting)
		if t.After(*m.EndTime) {
			return cfg.Amount.Mul(vE18)
		}
		if t.Before(st) {
			return sdk.ZeroInt()
		}
		dt := t.UnixMilli() - st.UnixMilli()
		per := m.EndTime.UnixMilli() - st.UnixMilli()
		return cfg.Amount.Mul(vE18).MulRaw(dt).QuoRaw(per)
	case kExp:
		cfg := m.Config.GetCachedValue().(*types.ExponentialStepMinting)
		now := t
		if m.EndTime != nil && t.After(*m.EndTime) {
			now = *m.EndTime
		}
		passed := int64(now.Sub(st))
		step := int64(cfg.StepDuration)
		nsteps := passed / step
		// step amounts a_0 = A, a_{i+1} = a_i * multiplier in the library's 18-decimal arithmetic
		sum := sdk.ZeroDec()
		a := sdk.NewDecFromInt(cfg.Amount)
		for j := int64(0); j < nsteps; j++ {
			sum = sum.Add(a)
			a = a.Mul(cfg.AmountMultiplier)
		}
		inStep := passed - nsteps*step
		return verif_dec_rawint(sum).Add(verif_dec_rawint(a).MulRaw(inStep).QuoRaw(step))
	}
	return sdk.ZeroInt()
}

