package keeper

// C19 — reported inflation equals the annualised emission rate of the current period divided by the supply.
// Code under test: Keeper.GetCurrentInflation, Minter.CalculateInflation, Linear/ExponentialStep/NoMinting.CalculateInflation,
// and AmountToMint for the cross-check against what is really minted.

import (
	"time"

	"cosmossdk.io/math"
	"github.com/chain4energy/c4e-chain/x/cfeminter/types"
	sdk "github.com/cosmos/cosmos-sdk/types"
)

const vYearNs = int64(365 * 24 * time.Hour)

func verifC19Setup(kinds []int) (Keeper, sdk.Context, verifSched, math.Int) {
	vFirstIds = []uint32{1, 4}
	s := verifSchedule(len(kinds), kinds)
	k := verifMinterKeeper()
	supply := verif_int_range("supply", "1", "1e30")
	W.bank.fund(verifModuleAddr("holders"), "uc4e", supply)
	return k, verifCtx(s.params.StartTime), s, supply
}

// Zero cases: no-minting period, block time before the start, exponential period whose end has passed.
func Verif_C19_zero_cases() {
	verif_knob("ignore_overflow", 1)
	switch verif_choice("case", 3) {
	case 0: // no-minting current period (first or second)
		kinds := []int{kNo, kNo}
		if verif_choice("second", 2) == 1 {
			kinds = []int{kLin, kNo}
		}
		k, ctx, s, _ := verifC19Setup(kinds)
		cur := 0
		if kinds[0] == kLin {
			cur = 1
		}
		st := verifFreshState(s)
		st.SequenceId = verifSeq(cur)
		ctx = verifInstall(k, s, st, verif_time("T"))
		inf, err := k.GetCurrentInflation(ctx)
		verif_assert(err == nil && inf.IsZero(), "a no-minting period reports zero inflation")
	case 1: // before the start
		kinds := verifKinds(2, verif_choice("kinds", verifKindCount(2)))
		k, ctx, s, _ := verifC19Setup(kinds)
		T := verif_time("T")
		verif_assume(T.Before(s.params.StartTime))
		s.assumeSteps(0, T, 2)
		ctx = verifInstall(k, s, verifFreshState(s), T)
		verif_knob("unroll", 6)
		inf, err := k.GetCurrentInflation(ctx)
		verif_assert(err == nil && inf.IsZero(), "zero inflation before the start time")
	case 2: // exponential period whose end has passed (state not yet advanced)
		k, ctx, s, _ := verifC19Setup([]int{kExp, kNo})
		T := verif_time("T")
		verif_assume(!T.Before(*s.params.Minters[0].EndTime))
		s.assumeSteps(0, T, 2)
		ctx = verifInstall(k, s, verifFreshState(s), T)
		verif_knob("unroll", 6)
		inf, err := k.GetCurrentInflation(ctx)
		verif_assert(err == nil && inf.IsZero(), "zero inflation for an exponential period whose end has passed")
	}
	verif_reach("zero case checked")
}

// Linear period: I = trunc18(trunc18(A * year / period) / supply), and what is really minted between two millisecond-aligned
// instants inside the period matches I * supply * interval / year up to one base unit of minting plus the 10^-18 truncation of I.
func Verif_C19_linear() {
	verif_knob("ignore_overflow", 1)
	// the current period is the first one or a later one (then its start is the previous period's end, not the schedule start)
	cur := verif_choice("cur", 2)
	kinds := []int{kLin, kNo}
	if cur == 1 {
		kinds = []int{verif_choice("prevKind", 3), kLin, kNo}
	}
	k, ctx, s, S := verifC19Setup(kinds)
	cfg := s.params.Minters[cur].Config.GetCachedValue().(*types.LinearMinting)
	start, end := s.params.StartTime, *s.params.Minters[cur].EndTime
	if cur == 1 {
		start = *s.params.Minters[0].EndTime
	}
	verif_assume(int64(end.Sub(start)) <= 100*vYearNs)
	t1 := verif_time_unit("t1", 1000000, vT0, vT1)
	t2 := verif_time_unit("t2", 1000000, vT0, vT1)
	verif_assume(!t1.Before(start) && t1.Before(t2) && t2.Before(end))
	st := verifFreshState(s)
	st.SequenceId = verifSeq(cur)
	ctx = verifInstall(k, s, st, t1)
	inf, err := k.GetCurrentInflation(ctx)
	verif_assert(err == nil, "inflation is defined inside the period")
	I := verif_dec_rawint(inf)
	// reference: annualised rate of the schedule over the supply, in exact integers
	period := int64(end.Sub(start))
	R := cfg.Amount.Mul(vE18).MulRaw(vYearNs).QuoRaw(period)
	verif_assert(I.Equal(R.Quo(S)), "inflation = trunc18(trunc18(amount * year / period) / supply)")
	// cross-check with the real minter: coins minted over [t1, t2] from the same carry
	carry := verif_dec_range("carry", "0", "999999999999999999")
	m1 := s.params.Minters[cur].AmountToMint(verifLogger{}, start, t1).Add(carry).TruncateInt()
	m2 := s.params.Minters[cur].AmountToMint(verifLogger{}, start, t2).Add(carry).TruncateInt()
	dM := m2.Sub(m1)
	dns := int64(t2.Sub(t1))
	lhs := dM.MulRaw(vYearNs).Mul(vE18).Sub(I.Mul(S).MulRaw(dns))
	tol := sdk.NewInt(vYearNs).Mul(vE18).Add(S.AddRaw(1).MulRaw(dns))
	verif_assert(lhs.Abs().LT(tol), "minted over the interval = inflation * supply * interval / year up to rounding")
	verif_reach("linear checked")
}

// Exponential period: I = trunc18(trunc18(a_n * year / step) / supply) with a_n the amount of the step containing the block time.
func Verif_C19_exponential() {
	verif_knob("ignore_overflow", 1)
	cur := verif_choice("cur", 2)
	kinds := []int{kExp, kNo}
	if cur == 1 {
		kinds = []int{verif_choice("prevKind", 3), kExp, kNo}
	}
	k, ctx, s, S := verifC19Setup(kinds)
	cfg := s.params.Minters[cur].Config.GetCachedValue().(*types.ExponentialStepMinting)
	start, end := s.params.StartTime, *s.params.Minters[cur].EndTime
	if cur == 1 {
		start = *s.params.Minters[0].EndTime
	}
	T := verif_time("T")
	verif_assume(!T.Before(start) && T.Before(end))
	K := int64(2)
	if verif_tier() > 0 {
		K = 3
	}
	s.assumeSteps(cur, T, K)
	st := verifFreshState(s)
	st.SequenceId = verifSeq(cur)
	ctx = verifInstall(k, s, st, T)
	verif_knob("unroll", 8)
	inf, err := k.GetCurrentInflation(ctx)
	verif_assert(err == nil, "inflation is defined inside the period")
	n := int64(T.Sub(start)) / int64(cfg.StepDuration)
	a := sdk.NewDecFromInt(cfg.Amount)
	for j := int64(0); j < n; j++ {
		a = a.Mul(cfg.AmountMultiplier)
	}
	R := verif_dec_rawint(a).MulRaw(vYearNs).QuoRaw(int64(cfg.StepDuration))
	verif_assert(verif_dec_rawint(inf).Equal(R.Quo(S)), "inflation = trunc18(trunc18(step amount * year / step) / supply)")
	verif_reach("exponential checked")
}
