package keeper

// C08 — new vesting accounts get exactly the documented amount and schedule.
// Code under test: msgServer.SendToVestingAccount, Keeper.SendToNewVestingAccount, newVestingAccount, newContinuousVestingAccount,
// msgServer.CreateVestingAccount, Keeper.CreateVestingAccount, ValidateSendToVestingAccount, ValidateCreateVestingAccount,
// and the SDK's NewBaseVestingAccount / NewContinuousVestingAccountRaw (executed from source).

import (
	"time"

	"github.com/chain4energy/c4e-chain/x/cfevesting/types"
	sdk "github.com/cosmos/cosmos-sdk/types"
	vestingtypes "github.com/cosmos/cosmos-sdk/x/auth/vesting/types"
)

var vE18 = sdk.NewInt(1000000000000000000)

func Verif_C08_send_from_pool() {
	k := verifVestingKeeper()
	T := verif_time_range("now", vVT0, vVT1)
	ctx := verifCtx(T)
	verifSetParams(k, ctx)
	vt := verifVestingType(k, ctx, "vt")
	avp := verifOwnerPools(k, ctx, 1, "vt")
	pool := avp.VestingPools[0]
	modBefore := verifModuleBal(vDenom)
	amount := verif_int_range("amount", "0", vMaxAmt)
	restart := verif_bool("restart")
	const to = "c4e:recipient"

	_, err := NewMsgServerImpl(k).SendToVestingAccount(sdk.WrapSDKContext(ctx), &types.MsgSendToVestingAccount{
		Owner: vOwner, ToAddress: to, VestingPoolName: pool.Name, Amount: amount, RestartVesting: restart})

	// what the preceding implicit withdraw-all pays out of a matured pool
	withdrawn := sdk.ZeroInt()
	if !T.Before(pool.LockEnd) {
		withdrawn = pool.GetCurrentlyLocked()
	}
	lockedAfterWithdraw := pool.GetCurrentlyLocked().Sub(withdrawn)
	after, _ := k.GetAccountVestingPools(ctx, vOwner)
	acc := W.auth.GetAccount(ctx, verifAddr(to))

	if amount.GT(lockedAfterWithdraw) {
		verif_assert(err != nil, "a request above what is still locked fails")
		verif_assert(acc == nil, "failed request creates no account")
		verif_assert(verifBalOf(to, vDenom).IsZero(), "failed request pays nothing to the recipient")
		verif_assert(after.VestingPools[0].Sent.Equal(pool.Sent), "failed request leaves the sent counter")
		verif_reach("too large rejected")
		return
	}
	verif_assert(err == nil, "a request within the locked amount succeeds for a fresh recipient")
	verif_assert(after.VestingPools[0].Sent.Equal(pool.Sent.Add(amount)), "sent counter grows by exactly the amount")
	verif_assert(verifBalOf(to, vDenom).Equal(amount), "recipient receives exactly the requested amount")
	verif_assert(verifModuleBal(vDenom).Equal(modBefore.Sub(amount).Sub(withdrawn)), "module account paid amount (+ matured withdrawal)")
	cva, ok := acc.(*vestingtypes.ContinuousVestingAccount)
	verif_assert(ok && cva != nil, "recipient is a continuous vesting account")
	if !ok || cva == nil {
		return
	}
	// vesting part = integer part of amount * (1 - free), exact integers
	free := verif_dec_rawint(vt.Free)
	expectOV := amount.Mul(vE18.Sub(free)).Quo(vE18)
	verif_assert(cva.OriginalVesting.AmountOf(vDenom).Equal(expectOV), "original vesting = floor(amount * (1 - free))")
	verif_assert(len(cva.OriginalVesting) <= 1, "only the vesting denom vests")
	verif_assert(cva.DelegatedFree.IsZero() && cva.DelegatedVesting.IsZero(), "nothing delegated on a fresh account")
	if restart {
		lockEnd := T.Add(vt.LockupPeriod)
		verif_assert(cva.StartTime == lockEnd.Unix(), "restart: vesting starts at block time + lockup")
		verif_assert(cva.EndTime == lockEnd.Add(vt.VestingPeriod).Unix(), "restart: vesting ends at block time + lockup + vesting period")
	} else {
		start := pool.LockEnd
		if start.Before(T) {
			start = T
		}
		verif_assert(cva.StartTime == start.Unix(), "no restart: vesting starts at max(now, pool lock end)")
		verif_assert(cva.EndTime == pool.LockEnd.Unix(), "no restart: vesting ends at the pool's lock end")
	}
	verif_reach("send checked")
}

func Verif_C08_create_vesting_account() {
	k := verifVestingKeeper()
	T := verif_time_range("now", vVT0, vVT1)
	ctx := verifCtx(T)
	verifSetParams(k, ctx)
	const from, to = "c4e:funder", "c4e:recipient"
	bal := verif_int_range("funderBalance", "0", vMaxAmt)
	W.bank.fund(verifAddr(from), vDenom, bal)
	amt := verif_int_range("amount", "0", vMaxAmt)
	start := verif_i64_range("startUnix", 0, 4000000000)
	end := verif_i64_range("endUnix", 0, 4000000000)
	coins := sdk.Coins{}
	if verif_choice("coins", 2) == 1 {
		coins = sdk.Coins{sdk.Coin{Denom: vDenom, Amount: amt}}
	}
	_, err := NewMsgServerImpl(k).CreateVestingAccount(sdk.WrapSDKContext(ctx), &types.MsgCreateVestingAccount{
		FromAddress: from, ToAddress: to, Amount: coins, StartTime: start, EndTime: end})
	acc := W.auth.GetAccount(ctx, verifAddr(to))
	if err != nil {
		verif_assert(verifBalOf(from, vDenom).Equal(bal) && verifBalOf(to, vDenom).IsZero(), "a rejected creation moves no coins")
		verif_reach("create rejected")
		return
	}
	verif_assert(start <= end, "start after end is rejected")
	moved := sdk.ZeroInt()
	if len(coins) == 1 {
		moved = amt
	}
	verif_assert(verifBalOf(from, vDenom).Equal(bal.Sub(moved)) && verifBalOf(to, vDenom).Equal(moved), "exactly the given coins are transferred")
	cva, ok := acc.(*vestingtypes.ContinuousVestingAccount)
	verif_assert(ok && cva != nil, "recipient is a continuous vesting account")
	if ok && cva != nil {
		verif_assert(cva.OriginalVesting.AmountOf(vDenom).Equal(moved), "all transferred coins vest")
		verif_assert(cva.StartTime == start && cva.EndTime == end, "vesting runs between the given start and end")
	}
	verif_reach("create checked")
	_ = time.Second
}
