package keeper

// Shared set-up for the cfesignature harnesses (overlaid into x/cfesignature/keeper).

import (
	"crypto/x509"
	"encoding/base64"
	"github.com/chain4energy/c4e-chain/x/cfesignature/types"
	cryptotypes "github.com/cosmos/cosmos-sdk/crypto/types"
	sdk "github.com/cosmos/cosmos-sdk/types"
	authtypes "github.com/cosmos/cosmos-sdk/x/auth/types"
	"github.com/gogo/protobuf/proto"
)

type verifPubKey struct{ id string }

func (k *verifPubKey) Reset()                                      {}
func (k *verifPubKey) String() string                              { return "verifPubKey{" + k.id + "}" }
func (k *verifPubKey) ProtoMessage()                               {}
func (k *verifPubKey) Address() cryptotypes.Address                { return cryptotypes.Address([]byte(k.id)) }
func (k *verifPubKey) Bytes() []byte                               { return []byte(k.id) }
func (k *verifPubKey) VerifySignature(msg []byte, sig []byte) bool { return false }
func (k *verifPubKey) Equals(o cryptotypes.PubKey) bool            { return false }
func (k *verifPubKey) Type() string                                { return "verif" }

// verifJSONCodec models codec.JSONCodec. UnmarshalInterfaceJSON either fails or yields a non-nil key
// (cosmos-sdk never returns a nil key with a nil error: "{}" / null -> "doesn't have '@type'", unknown type url -> "unable to resolve").
type verifJSONCodec struct{}

func (verifJSONCodec) MarshalJSON(o proto.Message) ([]byte, error)          { return []byte("{}"), nil }
func (verifJSONCodec) MustMarshalJSON(o proto.Message) []byte               { return []byte("{}") }
func (verifJSONCodec) MarshalInterfaceJSON(i proto.Message) ([]byte, error) { return []byte("{}"), nil }
func (verifJSONCodec) UnmarshalInterfaceJSON(bz []byte, ptr interface{}) error {
	s := verif_bytes_str(bz)
	if !verif_uf_bool("pubkey_json_wellformed", s) {
		return verifErr("unable to resolve type URL / malformed JSON")
	}
	pk, ok := ptr.(*cryptotypes.PubKey)
	if !ok {
		return verifErr("unexpected target type")
	}
	*pk = &verifPubKey{verif_uf_str("pubkey_of_json", s)}
	return nil
}
func (verifJSONCodec) UnmarshalJSON(bz []byte, ptr proto.Message) error { return verifErr("not modelled") }
func (verifJSONCodec) MustUnmarshalJSON(bz []byte, ptr proto.Message)   { panic("not modelled") }

// BaseAccount.String() marshals through an EMPTY interface registry: with a public key set, MarshalYAML fails,
// returns (nil, err) and the unchecked out.(string) panics; without a key it returns the YAML text (probed natively).
//
//verif:model (github.com/cosmos/cosmos-sdk/x/auth/types.BaseAccount).String
func model_BaseAccount_String(acc authtypes.BaseAccount) string {
	if acc.PubKey != nil {
		panic("interface conversion: interface {} is nil, not string")
	}
	return verif_uf_str("baseaccount_yaml", acc.Address, int64(acc.AccountNumber), int64(acc.Sequence))
}

func verifSignatureKeeper() Keeper {
	verifNewWorld()
	W.auth.addPerm(types.ModuleName)
	return Keeper{cdc: verifCodec{}, proto: verifJSONCodec{}, storeKey: &verifStoreKey{types.StoreKey}, authKeeper: W.auth}
}

func verifAddr(s string) sdk.AccAddress {
	a, err := sdk.AccAddressFromBech32(s)
	if err != nil {
		panic("verif: bad model address " + s)
	}
	return a
}

// ---- uninterpreted models of the cryptographic / encoding primitives used by cfesignature.
// H = hex(sha256(.)), B64 = base64 decode, Cert = pem+x509 parse, Chk = x509 CheckSignature, JSON field extraction.

//verif:model github.com/chain4energy/c4e-chain/x/cfesignature/util.CalculateHash
func model_CalculateHash(in string) string {
	h := verif_uf_str("H_sha256hex", in)
	verif_assume(len(h) == 64) // hex of a sha256 digest
	return h
}

//verif:model (*encoding/base64.Encoding).DecodeString
func model_b64_DecodeString(enc *base64.Encoding, s string) ([]byte, error) {
	if !verif_uf_bool("b64_wellformed", s) {
		return nil, verifErr("illegal base64 data")
	}
	return verif_bytes(verif_uf_str("B64_decode", s)), nil
}

//verif:model github.com/chain4energy/c4e-chain/x/cfesignature/util.GetUserCertificateFromString
func model_GetUserCertificateFromString(in []byte) (*x509.Certificate, error) {
	s := verif_bytes_str(in)
	if !verif_uf_bool("cert_wellformed", s) {
		return nil, verifErr("failed to parse certificate")
	}
	return &x509.Certificate{Raw: verif_bytes(verif_uf_str("Cert_parse", s))}, nil
}

//verif:model (*crypto/x509.Certificate).CheckSignature
func model_CheckSignature(c *x509.Certificate, algo x509.SignatureAlgorithm, signed, signature []byte) error {
	if verif_uf_bool("Chk_signature", verif_bytes_str(c.Raw), int64(algo), verif_bytes_str(signed), verif_bytes_str(signature)) {
		return nil
	}
	return verifErr("x509: signature verification failed")
}

// util.ExtractFieldFromJSON runs from source; only the JSON parser below it is a model. Parsing an arbitrary document into a
// map either fails or yields, for each key the module can ask for, an absent key, a string, a number or null — the same answer
// every time the same document is parsed.
var verifJSONKeys = []string{"signature", "algorithm", "certificate", "timestamp"}

// verifJSONStringsOnly: harnesses whose property does not depend on the shape of the document restrict every key to a
// (possibly empty) string, which is what an absent key reads as too.
var verifJSONStringsOnly = false

//verif:model encoding/json.Unmarshal
func model_json_Unmarshal(data []byte, v interface{}) error {
	doc := verif_bytes_str(data)
	if !verif_uf_bool("json_wellformed", doc) {
		return verifErr("invalid character in JSON")
	}
	mp, ok := v.(*map[string]interface{})
	if !ok {
		panic("verif: json.Unmarshal into this target type is not modelled")
	}
	m := map[string]interface{}{}
	for _, f := range verifJSONKeys {
		if verifJSONStringsOnly {
			m[f] = verif_uf_str("json_field", doc, f)
			continue
		}
		switch verif_uf_int("json_kind", doc, f) {
		case 0: // key absent
		case 1:
			m[f] = verif_uf_str("json_field", doc, f)
		case 2:
			m[f] = float64(12345)
		default:
			m[f] = nil
		}
	}
	*mp = m
	return nil
}

//verif:model crypto/sha256.Sum256
func model_Sum256(data []byte) [32]byte { return [32]byte{} }

//verif:model encoding/hex.EncodeToString
func model_hex_EncodeToString(src []byte) string { return verif_uf_str("hex_of_txhash") }
