package keeper

// Shared set-up for the cfesignature harnesses (overlaid into x/cfesignature/keeper).

import (
	"github.com/chain4energy/c4e-chain/x/cfesignature/types"
	cryptotypes "github.com/cosmos/cosmos-sdk/crypto/types"
	sdk "github.com/cosmos/cosmos-sdk/types"
	authtypes "github.com/cosmos/cosmos-sdk/x/auth/types"
	"github.com/gogo/protobuf/proto"
)

type verifPubKey struct{ id string }

func (k *verifPubKey) Reset()                                      {}
func (k *verifPubKey) String() string                              { return "verifPubKey{" + k.id + "}" }
func (k *verifPubKey) ProtoMessage()                               {}
func (k *verifPubKey) Address() cryptotypes.Address                { return cryptotypes.Address([]byte(k.id)) }
func (k *verifPubKey) Bytes() []byte                               { return []byte(k.id) }
func (k *verifPubKey) VerifySignature(msg []byte, sig []byte) bool { return false }
func (k *verifPubKey) Equals(o cryptotypes.PubKey) bool            { return false }
func (k *verifPubKey) Type() string                                { return "verif" }

// verifJSONCodec models codec.JSONCodec. UnmarshalInterfaceJSON either fails or yields a non-nil key
// (cosmos-sdk never returns a nil key with a nil error: "{}" / null -> "doesn't have '@type'", unknown type url -> "unable to resolve").
type verifJSONCodec struct{}

func (verifJSONCodec) MarshalJSON(o proto.Message) ([]byte, error)          { return []byte("{}"), nil }
func (verifJSONCodec) MustMarshalJSON(o proto.Message) []byte               { return []byte("{}") }
func (verifJSONCodec) MarshalInterfaceJSON(i proto.Message) ([]byte, error) { return []byte("{}"), nil }
func (verifJSONCodec) UnmarshalInterfaceJSON(bz []byte, ptr interface{}) error {
	s := verif_bytes_str(bz)
	if !verif_uf_bool("pubkey_json_wellformed", s) {
		return verifErr("unable to resolve type URL / malformed JSON")
	}
	pk, ok := ptr.(*cryptotypes.PubKey)
	if !ok {
		return verifErr("unexpected target type")
	}
	*pk = &verifPubKey{verif_uf_str("pubkey_of_json", s)}
	return nil
}
func (verifJSONCodec) UnmarshalJSON(bz []byte, ptr proto.Message) error { return verifErr("not modelled") }
func (verifJSONCodec) MustUnmarshalJSON(bz []byte, ptr proto.Message)   { panic("not modelled") }

// BaseAccount.String() marshals through an EMPTY interface registry: with a public key set, MarshalYAML fails,
// returns (nil, err) and the unchecked out.(string) panics; without a key it returns the YAML text (probed natively).
//
//verif:model (github.com/cosmos/cosmos-sdk/x/auth/types.BaseAccount).String
func model_BaseAccount_String(acc authtypes.BaseAccount) string {
	if acc.PubKey != nil {
		panic("interface conversion: interface {} is nil, not string")
	}
	return verif_uf_str("baseaccount_yaml", acc.Address, int64(acc.AccountNumber), int64(acc.Sequence))
}

func verifSignatureKeeper() Keeper {
	verifNewWorld()
	W.auth.addPerm(types.ModuleName)
	return Keeper{cdc: verifCodec{}, proto: verifJSONCodec{}, storeKey: &verifStoreKey{types.StoreKey}, authKeeper: W.auth}
}

func verifAddr(s string) sdk.AccAddress {
	a, err := sdk.AccAddressFromBech32(s)
	if err != nil {
		panic("verif: bad model address " + s)
	}
	return a
}
