package keeper

// C20 (cfeminter part) — no message or query panics; ValidateBasic never passes a message whose handler then crashes.

import (
	appparams "github.com/chain4energy/c4e-chain/app/params"
	"github.com/chain4energy/c4e-chain/x/cfeminter/types"
	sdk "github.com/cosmos/cosmos-sdk/types"
)

func verifC20MinterCtx() (Keeper, sdk.Context) {
	appparams.SetAuthorityAddress()
	k, ctx, _ := verifC13Install()
	k.authority = appparams.GetAuthority()
	return k, ctx
}

func Verif_C20_minter_messages() {
	k, ctx := verifC20MinterCtx()
	authority := verif_str_in("authority", appparams.GetAuthority(), "c4e:someone", "", "notbech32")
	vC20Direct = verif_choice("handlerCalledDirectly", 2) == 1
	maxN := 3
	if vC20Direct {
		maxN = 2 // direct calls: 0..1 minters (what runs before the handler's own validation does not depend on the list length)
	}
	newMinters := verifArbitraryMinters(verif_choice("newN", maxN))
	newStart := verif_time_unit("newStart", 1000000, vT0, vT1)
	ms := NewMsgServerImpl(k)
	if verif_choice("fullUpdate", 2) == 1 {
		msg := &types.MsgUpdateParams{Authority: authority, MintDenom: verif_str_in("newDenom", "uc4e", "", "a"), StartTime: newStart, Minters: newMinters}
		if verifC20Run(msg.ValidateBasic) {
			_, _ = ms.UpdateParams(sdk.WrapSDKContext(ctx), msg)
			verif_reach("handler ran")
		}
	} else {
		msg := &types.MsgUpdateMintersParams{Authority: authority, StartTime: newStart, Minters: newMinters}
		if verifC20Run(msg.ValidateBasic) {
			_, _ = ms.UpdateMintersParams(sdk.WrapSDKContext(ctx), msg)
			verif_reach("handler ran")
		}
	}
}

func Verif_C20_minter_queries() {
	k, ctx := verifC20MinterCtx()
	W.bank.fund(verifModuleAddr("someone"), "uc4e", verif_int_range("supply", "0", "1e30"))
	qt := verif_time("queryTime")
	// performance bound, not a panic: at most 3 exponential steps between a period start and the query time
	verif_assume(int64(qt.Sub(k.GetParams(ctx).StartTime)) <= 3000000000)
	g := sdk.WrapSDKContext(ctx.WithBlockTime(qt))
	nilReq := verif_choice("nilReq", 2) == 1
	switch verif_choice("query", 3) {
	case 0:
		if nilReq {
			_, _ = k.Inflation(g, nil)
		} else {
			verif_knob("unroll", 8)
			_, _ = k.Inflation(g, &types.QueryInflationRequest{})
		}
	case 1:
		if nilReq {
			_, _ = k.State(g, nil)
		} else {
			_, _ = k.State(g, &types.QueryStateRequest{})
		}
	case 2:
		if nilReq {
			_, _ = k.Params(g, nil)
		} else {
			_, _ = k.Params(g, &types.QueryParamsRequest{})
		}
	}
	verif_reach("query ran")
}

// A handler is exercised when basic validation passes and also when it is called directly, whatever basic validation would say
// (handlers are reachable without ValidateBasic from other modules and from tests; they carry their own guards). In the direct
// mode ValidateBasic is not run at all, so its branches do not multiply the handler's.
var vC20Direct = false

func verifC20Run(basic func() error) bool {
	if vC20Direct {
		return true
	}
	return basic() == nil
}
