package keeper

// C20 (cfevesting part) — no message or query panics; ValidateBasic never passes a message whose handler then crashes.
// Every panic site reached (explicit panic, nil dereference, index out of range, failed type assertion, library panics such as
// sdk.NewCoin / Coins.AmountOf on an invalid denom, math.Int on nil) is reported by the engine as a violation.

import (
	"time"

	"cosmossdk.io/math"
	"github.com/chain4energy/c4e-chain/x/cfevesting/types"
	sdk "github.com/cosmos/cosmos-sdk/types"
	authtypes "github.com/cosmos/cosmos-sdk/x/auth/types"
	vestingtypes "github.com/cosmos/cosmos-sdk/x/auth/vesting/types"
)

func verifNilableInt(name string) math.Int {
	if verif_choice("nil_"+name, 3) == 2 {
		return verif_int_nil()
	}
	return verif_int_range(name, "-5", vMaxAmt)
}

var vAddrPool = []string{vOwner, vOther, "c4e:recipient", "", "notbech32"}

// verifC20State: stored state accepted by genesis validation, with and without the referenced objects; optionally the post-upgrade
// shape where a pool references a vesting type that no longer exists.
func verifC20State(k Keeper, ctx sdk.Context) {
	verifSetParams(k, ctx)
	mode := verif_choice("stateMode", 3)
	if mode == 0 {
		// empty module state: no pools exist, so governance may have set the denom to anything the parameter validation accepts
		p := types.Params{Denom: verif_str_in("paramsDenom", vDenom, "a", "1x", "")}
		verif_assume(p.Validate() == nil)
		if err := k.SetParams(ctx, p); err != nil {
			verif_fail("SetParams rejects parameters that Validate accepted")
		}
		if verif_choice("typesWithoutPools", 2) == 1 {
			verifVestingType(k, ctx, "vt") // vesting types come with the genesis; pools need not exist yet
			W.bank.fund(verifAddr(vOwner), vDenom, verif_int_range("ownerBalance", "0", vMaxAmt))
		}
		return
	}
	vtName := "vt"
	verifVestingType(k, ctx, "vt")
	if mode == 2 {
		vtName = "Validators" // renamed away by the v1.2.0 upgrade: the pool's type does not exist
	}
	verifOwnerPools(k, ctx, 1, vtName)
	W.bank.fund(verifAddr(vOwner), vDenom, verif_int_range("ownerBalance", "0", vMaxAmt))
	// the other address is a continuous vesting account with a trace
	base := W.auth.NewAccountWithAddress(ctx, verifAddr(vOther)).(*authtypes.BaseAccount)
	W.auth.SetAccount(ctx, vestingtypes.NewContinuousVestingAccountRaw(vestingtypes.NewBaseVestingAccount(base, sdk.NewCoins(sdk.NewCoin(vDenom, sdk.NewInt(1000))), vVT1+1000000), vVT1))
	W.bank.fund(verifAddr(vOther), vDenom, sdk.NewInt(1000))
	k.AppendVestingAccountTrace(ctx, types.VestingAccountTrace{Address: vOther, Genesis: verif_bool("traceGenesis")})
}

func verifC20Ctx() (Keeper, sdk.Context) {
	k := verifVestingKeeper()
	ctx := verifCtx(verif_time_range("now", vVT0, vVT1))
	verifC20State(k, ctx)
	return k, ctx
}

func Verif_C20_vesting_create_pool() {
	k, ctx := verifC20Ctx()
	msg := &types.MsgCreateVestingPool{Owner: verif_str_in("owner", vAddrPool...), Name: verif_str_in("name", "pool-a", "new", ""), Amount: verifNilableInt("amount"),
		Duration: time.Duration(verif_i64_range("duration", -5, 100000000000000000)), VestingType: verif_str_in("vt", "vt", "missing", "")}
	if verifC20Run(msg.ValidateBasic) {
		_, _ = NewMsgServerImpl(k).CreateVestingPool(sdk.WrapSDKContext(ctx), msg)
		verif_reach("handler ran")
	}
}

func Verif_C20_vesting_withdraw() {
	k, ctx := verifC20Ctx()
	msg := &types.MsgWithdrawAllAvailable{Owner: verif_str_in("owner", vAddrPool...)}
	if verifC20Run(msg.ValidateBasic) {
		_, _ = NewMsgServerImpl(k).WithdrawAllAvailable(sdk.WrapSDKContext(ctx), msg)
		verif_reach("handler ran")
	}
}

func Verif_C20_vesting_send_to_vesting_account() {
	k, ctx := verifC20Ctx()
	msg := &types.MsgSendToVestingAccount{Owner: verif_str_in("owner", vAddrPool...), ToAddress: verif_str_in("to", vAddrPool...),
		VestingPoolName: verif_str_in("name", "pool-a", "missing", ""), Amount: verifNilableInt("amount"), RestartVesting: verif_bool("restart")}
	if verifC20Run(msg.ValidateBasic) {
		_, _ = NewMsgServerImpl(k).SendToVestingAccount(sdk.WrapSDKContext(ctx), msg)
		verif_reach("handler ran")
	}
}

func verifC20Coins() sdk.Coins {
	switch verif_choice("coinsShape", 5) {
	case 0:
		return nil
	case 1:
		return sdk.Coins{}
	case 2:
		return sdk.Coins{sdk.Coin{Denom: verif_str_in("denom1", vDenom, "a", "", "UPPER!"), Amount: verifNilableInt("coin1")}}
	case 3:
		return sdk.Coins{sdk.Coin{Denom: vDenom, Amount: verifNilableInt("coin1")}, sdk.Coin{Denom: verif_str_in("denom2", vDenom, "aaa", "zzz"), Amount: verifNilableInt("coin2")}}
	}
	return sdk.Coins{sdk.Coin{Denom: "zzz", Amount: verif_int_range("coin1", "0", vMaxAmt)}, sdk.Coin{Denom: vDenom, Amount: verif_int_range("coin2", "0", vMaxAmt)}}
}

func Verif_C20_vesting_create_vesting_account() {
	k, ctx := verifC20Ctx()
	msg := &types.MsgCreateVestingAccount{FromAddress: verif_str_in("from", vOwner, vOther, "notbech32"), ToAddress: verif_str_in("to", vOther, "c4e:recipient", ""), Amount: verifC20Coins(),
		StartTime: verif_i64_range("startUnix", -5, 4000000000), EndTime: verif_i64_range("endUnix", -5, 4000000000)}
	if verifC20Run(msg.ValidateBasic) {
		_, _ = NewMsgServerImpl(k).CreateVestingAccount(sdk.WrapSDKContext(ctx), msg)
		verif_reach("handler ran")
	}
}

func Verif_C20_vesting_split() {
	k, ctx := verifC20Ctx()
	msg := &types.MsgSplitVesting{FromAddress: verif_str_in("from", vAddrPool...), ToAddress: verif_str_in("to", vAddrPool...), Amount: verifC20Coins()}
	if verifC20Run(msg.ValidateBasic) {
		_, _ = NewMsgServerImpl(k).SplitVesting(sdk.WrapSDKContext(ctx), msg)
		verif_reach("handler ran")
	}
}

func Verif_C20_vesting_move() {
	k, ctx := verifC20Ctx()
	msg := &types.MsgMoveAvailableVesting{FromAddress: verif_str_in("from", vAddrPool...), ToAddress: verif_str_in("to", vAddrPool...)}
	if verifC20Run(msg.ValidateBasic) {
		_, _ = NewMsgServerImpl(k).MoveAvailableVesting(sdk.WrapSDKContext(ctx), msg)
		verif_reach("handler ran")
	}
}

func Verif_C20_vesting_move_by_denoms() {
	k, ctx := verifC20Ctx()
	var denoms []string
	for i := 0; i < verif_choice("ndenoms", 3); i++ {
		denoms = append(denoms, verif_str_in("denom"+string(rune('1'+i)), vDenom, "a", "", "UPPER!", "zzz"))
	}
	msg := &types.MsgMoveAvailableVestingByDenoms{FromAddress: verif_str_in("from", vAddrPool...), ToAddress: verif_str_in("to", vAddrPool...), Denoms: denoms}
	if verifC20Run(msg.ValidateBasic) {
		_, _ = NewMsgServerImpl(k).MoveAvailableVestingByDenoms(sdk.WrapSDKContext(ctx), msg)
		verif_reach("handler ran")
	}
}

func Verif_C20_vesting_update_denom() {
	k, ctx := verifC20Ctx()
	msg := &types.MsgUpdateDenomParam{Authority: verif_str_in("authority", "c4e:gov", "c4e:mod:gov", "", "notbech32"), Denom: verif_str_in("denom", "unew", "", "a")}
	if verifC20Run(msg.ValidateBasic) {
		_, _ = NewMsgServerImpl(k).UpdateDenomParam(sdk.WrapSDKContext(ctx), msg)
		verif_reach("handler ran")
	}
}

func Verif_C20_vesting_queries() {
	k, ctx := verifC20Ctx()
	g := sdk.WrapSDKContext(ctx)
	switch verif_choice("query", 5) {
	case 0:
		if verif_choice("nilReq", 2) == 1 {
			_, _ = k.VestingPools(g, nil)
		} else {
			_, _ = k.VestingPools(g, &types.QueryVestingPoolsRequest{Owner: verif_str_in("owner", vAddrPool...)})
		}
	case 1:
		if verif_choice("nilReq", 2) == 1 {
			_, _ = k.VestingType(g, nil)
		} else {
			_, _ = k.VestingType(g, &types.QueryVestingTypeRequest{})
		}
	case 2:
		if verif_choice("nilReq", 2) == 1 {
			_, _ = k.VestingsSummary(g, nil)
		} else {
			_, _ = k.VestingsSummary(g, &types.QueryVestingsSummaryRequest{})
		}
	case 3:
		if verif_choice("nilReq", 2) == 1 {
			_, _ = k.GenesisVestingsSummary(g, nil)
		} else {
			_, _ = k.GenesisVestingsSummary(g, &types.QueryGenesisVestingsSummaryRequest{})
		}
	case 4:
		if verif_choice("nilReq", 2) == 1 {
			_, _ = k.Params(g, nil)
		} else {
			_, _ = k.Params(g, &types.QueryParamsRequest{})
		}
	}
	verif_reach("query ran")
}

// A handler is exercised when basic validation passes and also when it is called directly, whatever basic validation would say
// (handlers are reachable without ValidateBasic from other modules and from tests; they carry their own guards). In the direct
// mode ValidateBasic is not run at all, so its branches do not multiply the handler's.
func verifC20Run(basic func() error) bool {
	if verif_choice("handlerCalledDirectly", 2) == 1 {
		return true
	}
	return basic() == nil
}
