package keeper

// C20 (cfesignature part) — no message or query panics on any input.

import (
	"crypto/rand"

	"github.com/chain4energy/c4e-chain/x/cfesignature/types"
	sdk "github.com/cosmos/cosmos-sdk/types"
)

//verif:model crypto/rand.Read
func model_rand_Read(b []byte) (int, error) { return len(b), nil }

var _ = rand.Read

var sAddrPool = []string{"c4e:alice", "c4e:bob", "", "notbech32"}

func verifC20SigState(k Keeper, ctx sdk.Context) {
	switch verif_choice("accounts", 3) {
	case 1: // an account without public key
		W.auth.SetAccount(ctx, W.auth.NewAccountWithAddress(ctx, verifAddr("c4e:alice")))
	case 2: // an account with a public key
		acc := W.auth.NewAccountWithAddress(ctx, verifAddr("c4e:alice"))
		_ = acc.SetPubKey(&verifPubKey{"k"})
		W.auth.SetAccount(ctx, acc)
	}
	if verif_choice("stored", 2) == 1 {
		sk, lk := verif_str("storedKey"), verif_str("storedLinkKey")
		verif_assume(len(sk) > 0 && len(lk) > 0) // entries are only ever written under non-empty keys
		k.AppendSignature(ctx, sk, types.Signature{Signature: verif_str("sig"), Algorithm: verif_str_in("alg", "ecdsaWithSha256", "md5", ""), Certificate: verif_str("cert"), Timestamp: "t"})
		_ = k.AppendPayloadLink(ctx, lk, verif_str("storedLink"))
	}
}

func Verif_C20_signature_messages() {
	k := verifSignatureKeeper()
	ctx := verifCtx(verif_time_range("now", 1600000000, 1900000000))
	verifC20SigState(k, ctx)
	ms := NewMsgServerImpl(k)
	g := sdk.WrapSDKContext(ctx)
	creator := verif_str_in("creator", sAddrPool...)
	switch verif_choice("msg", 3) {
	case 0:
		msg := &types.MsgStoreSignature{Creator: creator, StorageKey: verif_str("storageKey"), SignatureJSON: verif_str("sigJSON")}
		if verifC20Run(msg.ValidateBasic) {
			_, _ = ms.StoreSignature(g, msg)
			verif_reach("handler ran")
		}
	case 1:
		msg := &types.MsgPublishReferencePayloadLink{Creator: creator, Key: verif_str("key"), Value: verif_str("value")}
		if verifC20Run(msg.ValidateBasic) {
			_, _ = ms.PublishReferencePayloadLink(g, msg)
			verif_reach("handler ran")
		}
	case 2:
		msg := &types.MsgCreateAccount{Creator: creator, AccAddressString: verif_str_in("accAddr", sAddrPool...), PubKeyString: verif_str("pubKeyJSON")}
		if verifC20Run(msg.ValidateBasic) {
			_, _ = ms.CreateAccount(g, msg)
			verif_reach("handler ran")
		}
	}
}

func Verif_C20_signature_queries() {
	k := verifSignatureKeeper()
	ctx := verifCtx(verif_time_range("now", 1600000000, 1900000000))
	verifC20SigState(k, ctx)
	g := sdk.WrapSDKContext(ctx)
	nilReq := verif_choice("nilReq", 2) == 1
	switch verif_choice("query", 8) {
	case 0:
		if nilReq {
			_, _ = k.CreateReferenceId(g, nil)
		} else {
			_, _ = k.CreateReferenceId(g, &types.QueryCreateReferenceIdRequest{Creator: verif_str("creator")})
		}
	case 1:
		if nilReq {
			_, _ = k.CreateReferencePayloadLink(g, nil)
		} else {
			_, _ = k.CreateReferencePayloadLink(g, &types.QueryCreateReferencePayloadLinkRequest{ReferenceId: verif_str("ref"), PayloadHash: verif_str("hash")})
		}
	case 2:
		if nilReq {
			_, _ = k.CreateStorageKey(g, nil)
		} else {
			_, _ = k.CreateStorageKey(g, &types.QueryCreateStorageKeyRequest{TargetAccAddress: verif_str("addr"), ReferenceId: verif_str("ref")})
		}
	case 3:
		if nilReq {
			_, _ = k.GetAccountInfo(g, nil)
		} else {
			_, _ = k.GetAccountInfo(g, &types.QueryGetAccountInfoRequest{AccAddressString: verif_str_in("accAddr", sAddrPool...)})
		}
	case 4:
		if nilReq {
			_, _ = k.GetReferencePayloadLink(g, nil)
		} else {
			_, _ = k.GetReferencePayloadLink(g, &types.QueryGetReferencePayloadLinkRequest{})
		}
	case 5:
		if nilReq {
			_, _ = k.VerifyReferencePayloadLink(g, nil)
		} else {
			_, _ = k.VerifyReferencePayloadLink(g, &types.QueryVerifyReferencePayloadLinkRequest{})
		}
	case 6:
		if nilReq {
			_, _ = k.VerifySignature(g, nil)
		} else {
			_, _ = k.VerifySignature(g, &types.QueryVerifySignatureRequest{TargetAccAddress: verif_str("addr"), ReferenceId: verif_str("ref")})
		}
	case 7:
		if nilReq {
			_, _ = k.Params(g, nil)
		} else {
			_, _ = k.Params(g, &types.QueryParamsRequest{})
		}
	}
	verif_reach("query ran")
}

// A handler is exercised when basic validation passes and also when it is called directly, whatever basic validation would say
// (handlers are reachable without ValidateBasic from other modules and from tests; they carry their own guards). In the direct
// mode ValidateBasic is not run at all, so its branches do not multiply the handler's.
func verifC20Run(basic func() error) bool {
	if verif_choice("handlerCalledDirectly", 2) == 1 {
		return true
	}
	return basic() == nil
}
