package keeper

// C20 (cfedistributor part) — no message or query panics; ValidateBasic never passes a message whose handler then crashes.

import (
	appparams "github.com/chain4energy/c4e-chain/app/params"
	"github.com/chain4energy/c4e-chain/x/cfedistributor/types"
	sdk "github.com/cosmos/cosmos-sdk/types"
)

func verifC20DistCtx() (Keeper, sdk.Context) {
	appparams.SetAuthorityAddress()
	k := verifDistKeeper()
	k.authority = appparams.GetAuthority()
	ctx := verifCtx(verif_time_range("now", 1600000000, 1900000000))
	if verif_choice("stored", 2) == 1 {
		if err := k.SetParams(ctx, verifC13Stored()); err != nil {
			verif_fail("SetParams rejects parameters that Validate accepted")
		}
	}
	return k, ctx
}

func verifNilableDec(name string) sdk.Dec {
	if verif_choice("nil_"+name, 3) == 2 {
		return verif_dec_nil()
	}
	return verif_dec_range(name, "-5", "2000000000000000000")
}

// an arbitrary, possibly malformed sub-distributor: nil sources / shares elements, nil Dec shares, odd account types
func verifArbitrarySub(tag string) types.SubDistributor {
	sd := verifSubFrom(5, 1, false, c13Src, c13Dst)
	sd.Name = verif_str_in("name"+tag, "sd1", "sd2", "")
	sd.Destinations.BurnShare = verifNilableDec("burn" + tag)
	switch verif_choice("shape"+tag, 5) {
	case 1:
		sd.Sources = nil
	case 2:
		sd.Sources = append(sd.Sources, nil)
	case 3:
		sd.Destinations.Shares = []*types.DestinationShare{nil}
	case 4:
		sd.Destinations.Shares = []*types.DestinationShare{{Name: verif_str_in("shareName"+tag, "share1", "", "sd1_primary"), Share: verifNilableDec("share" + tag),
			Destination: types.Account{Type: verif_str_in("dstType"+tag, types.BaseAccount, types.ModuleAccount, "WRONG", ""), Id: verif_str_in("dstId"+tag, dBase2, "nope", "")}}}
	}
	return sd
}

func Verif_C20_distributor_messages() {
	vC20Direct = verif_choice("handlerCalledDirectly", 2) == 1
	k, ctx := verifC20DistCtx()
	authority := verif_str_in("authority", appparams.GetAuthority(), "c4e:someone", "")
	ms := NewMsgServerImpl(k)
	g := sdk.WrapSDKContext(ctx)
	switch verif_choice("msg", 4) {
	case 0:
		var subs []types.SubDistributor
		maxN := 3
		if vC20Direct {
			maxN = 2 // direct calls: 0..1 sub-distributors
		}
		for i := 0; i < verif_choice("newN", maxN); i++ {
			subs = append(subs, verifArbitrarySub(string(rune('A'+i))))
		}
		msg := &types.MsgUpdateParams{Authority: authority, SubDistributors: subs}
		if verifC20Run(msg.ValidateBasic) {
			_, _ = ms.UpdateParams(g, msg)
			verif_reach("handler ran")
		}
	case 1:
		msg := &types.MsgUpdateSubDistributorParam{Authority: authority}
		if verif_choice("nilSub", 2) == 0 {
			sd := verifArbitrarySub("A")
			msg.SubDistributor = &sd
		}
		if verifC20Run(msg.ValidateBasic) {
			_, _ = ms.UpdateSubDistributorParam(g, msg)
			verif_reach("handler ran")
		}
	case 2:
		msg := &types.MsgUpdateSubDistributorDestinationShareParam{Authority: authority, SubDistributorName: verif_str_in("sdName", "sd1", "sd9", ""),
			DestinationName: verif_str_in("dstName", "share1", "nope", ""), Share: verifNilableDec("newShare")}
		if verifC20Run(msg.ValidateBasic) {
			_, _ = ms.UpdateSubDistributorDestinationShareParam(g, msg)
			verif_reach("handler ran")
		}
	case 3:
		msg := &types.MsgUpdateSubDistributorBurnShareParam{Authority: authority, SubDistributorName: verif_str_in("sdName", "sd1", "sd9", ""), BurnShare: verifNilableDec("newBurn")}
		if verifC20Run(msg.ValidateBasic) {
			_, _ = ms.UpdateSubDistributorBurnShareParam(g, msg)
			verif_reach("handler ran")
		}
	}
}

func Verif_C20_distributor_queries() {
	k, ctx := verifC20DistCtx()
	g := sdk.WrapSDKContext(ctx)
	nilReq := verif_choice("nilReq", 2) == 1
	if verif_choice("query", 2) == 0 {
		if nilReq {
			_, _ = k.States(g, nil)
		} else {
			_, _ = k.States(g, &types.QueryStatesRequest{})
		}
	} else {
		if nilReq {
			_, _ = k.Params(g, nil)
		} else {
			_, _ = k.Params(g, &types.QueryParamsRequest{})
		}
	}
	verif_reach("query ran")
}

// A handler is exercised when basic validation passes and also when it is called directly, whatever basic validation would say
// (handlers are reachable without ValidateBasic from other modules and from tests; they carry their own guards). In the direct
// mode ValidateBasic is not run at all, so its branches do not multiply the handler's.
var vC20Direct = false

func verifC20Run(basic func() error) bool {
	if vC20Direct {
		return true
	}
	return basic() == nil
}
