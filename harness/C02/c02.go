package keeper

import (
	"time"

	"github.com/chain4energy/c4e-chain/x/cfeminter/types"
	codectypes "github.com/cosmos/cosmos-sdk/codec/types"
	sdk "github.com/cosmos/cosmos-sdk/types"
	authtypes "github.com/cosmos/cosmos-sdk/x/auth/types"
)

const verifCollector = "distributor_main_account"

func verifMinterKeeper() Keeper {
	verifNewWorld()
	W.auth.addPerm(types.ModuleName, authtypes.Minter, authtypes.Burner, authtypes.Staking)
	W.auth.addPerm(verifCollector, authtypes.Burner)
	return Keeper{cdc: verifCodec{}, storeKey: &verifStoreKey{types.StoreKey}, bankKeeper: W.bank, stakingKeeper: verifStaking{},
		collectorName: verifCollector, authority: "gov"}
}

func verifAny(cfg types.MinterConfigI) *codectypes.Any {
	a, err := codectypes.NewAnyWithValue(cfg)
	if err != nil {
		panic(err)
	}
	return a
}

// Smoke: one linear period followed by no-minting; fresh state; single block at T inside the period.
func Verif_C02_smoke_linear() {
	k := verifMinterKeeper()
	start := verif_time_unit("start", 1000000, 1600000000, 1700000000)
	end := verif_time_unit("end", 1000000, 1600000000, 2000000000)
	A := verif_int_range("A", "0", "1e36")
	params := types.Params{MintDenom: "uc4e", StartTime: start, Minters: []*types.Minter{
		{SequenceId: 1, EndTime: &end, Config: verifAny(&types.LinearMinting{Amount: A})},
		{SequenceId: 2, Config: verifAny(&types.NoMinting{})},
	}}
	verif_assume(params.Validate() == nil)
	ctx := verifCtx(start)
	if err := k.SetParams(ctx, params); err != nil {
		verif_fail("SetParams of valid params failed")
	}
	k.SetMinterState(ctx, types.MinterState{SequenceId: 1, AmountMinted: sdk.ZeroInt(), RemainderToMint: sdk.ZeroDec(), RemainderFromPreviousMinter: sdk.ZeroDec(), LastMintBlockTime: start})
	T := verif_time_unit("T", 1000000, 1600000000, 2000000000)
	verif_assume(T.After(start) && T.Before(end))
	ctx = ctx.WithBlockTime(T)
	amt, err := k.Mint(ctx)
	verif_assert(err == nil, "mint returns no error")
	// reference: floor(A * (T-start)ms / (end-start)ms)
	dt := T.UnixMilli() - start.UnixMilli()
	per := end.UnixMilli() - start.UnixMilli()
	ref := A.MulRaw(dt).QuoRaw(per)
	verif_assert(amt.Equal(ref), "minted = floor(A*dt/period)")
	verif_assert(W.bank.balance(verifAddrKey(verifModuleAddr(verifCollector)), "uc4e").Equal(ref), "collector received the minted amount")
	verif_reach("smoke end")
	_ = time.Second
}
