package keeper

// C02 — emission follows the configured schedule, independent of block cadence.
// Code under test (executed from /repo's source): Keeper.Mint, mint, getCurrentAndPreviousMinter,
// Minter.AmountToMint, Linear/ExponentialStep/NoMinting.AmountToMint, Params.Validate and helpers,
// Get/SetMinterState, SetMinterStateHistory, GetParams/SetParams.

import (
	"time"

	"cosmossdk.io/math"
	"github.com/chain4energy/c4e-chain/x/cfeminter/types"
	sdk "github.com/cosmos/cosmos-sdk/types"
	authtypes "github.com/cosmos/cosmos-sdk/x/auth/types"
)

func verifMinterKeeper() Keeper {
	verifNewWorld()
	W.auth.addPerm(types.ModuleName, authtypes.Minter, authtypes.Burner, authtypes.Staking)
	W.auth.addPerm(verifCollector, authtypes.Burner)
	return Keeper{cdc: verifCodec{}, storeKey: &verifStoreKey{types.StoreKey}, bankKeeper: W.bank, stakingKeeper: verifStaking{},
		collectorName: verifCollector, authority: "gov"}
}

// ---- state

func verifFreshState(s verifSched) types.MinterState {
	return types.MinterState{SequenceId: verifSeq(0), AmountMinted: sdk.ZeroInt(), RemainderToMint: sdk.ZeroDec(),
		RemainderFromPreviousMinter: sdk.ZeroDec(), LastMintBlockTime: s.params.StartTime}
}

// verifInvState returns an arbitrary state of period k satisfying the inductive invariant Inv_m:
// prev end <= t_last < current end, 0 <= carry < 1, 0 <= AmountMinted <= trunc(f_k(t_last) + carry)
// where f_k is the code's own AmountToMint.
func verifInvState(s verifSched, k int, K int64) types.MinterState {
	tl := verif_time("t_last")
	verif_assume(!tl.Before(s.starts[k]))
	if e := s.params.Minters[k].EndTime; e != nil {
		verif_assume(tl.Before(*e))
	}
	s.assumeSteps(k, tl, K)
	carry := verif_dec_range("carry", "0", "999999999999999999")
	minted := verif_int_range("minted", "0", "1e40")
	f := s.params.Minters[k].AmountToMint(verifLogger{}, s.starts[k], tl)
	verif_assume(minted.LTE(f.Add(carry).TruncateInt()))
	return types.MinterState{SequenceId: verifSeq(k), AmountMinted: minted, RemainderToMint: verif_dec_range("rtm", "0", "999999999999999999"),
		RemainderFromPreviousMinter: carry, LastMintBlockTime: tl}
}

func verifInstall(k Keeper, s verifSched, st types.MinterState, t time.Time) sdk.Context {
	ctx := verifCtx(t)
	if err := k.SetParams(ctx, s.params); err != nil {
		verif_fail("SetParams rejects parameters that Validate accepted")
	}
	k.SetMinterState(ctx, st)
	return ctx
}

func verifCollected() math.Int {
	return W.bank.balance(verifAddrKey(verifModuleAddr(verifCollector)), "uc4e")
}

func verifSizes() (nmax int, K int64) {
	// C02 is about amounts, not about panics: 256/315-bit overflow checks of math.Int / sdk.Dec are switched off here
	// (amounts <= 10^36 keep every intermediate value below 10^90 < 2^315); C10 checks the panic sites.
	verif_knob("ignore_overflow", 1)
	if verif_tier() > 0 {
		return 3, 3
	}
	return 2, 2
}

// O3 + O4: from the fresh state, one block at any T: minted = floor(sum of finished periods + current period's emission at T),
// every finished linear period has minted exactly its amount, carry is the fractional part.
func Verif_C02_reference_from_fresh() {
	vFirstIds = []uint32{1, 4} // the schedule does not depend on where the numbering of the periods starts
	nmax, K := verifSizes()
	n := verif_choice("n", nmax) + 1
	kinds := verifKinds(n, verif_choice("kinds", verifKindCount(n)))
	s := verifSchedule(n, kinds)
	k := verifMinterKeeper()
	T := verif_time("T")
	verif_assume(T.After(s.params.StartTime))
	for i := 0; i < n; i++ {
		s.assumeSteps(i, T, K)
	}
	// the chain may have started (and recorded its last mint time) at any moment up to the start of the emission
	fresh := verifFreshState(s)
	fresh.LastMintBlockTime = verif_time("t_genesis")
	verif_assume(!fresh.LastMintBlockTime.After(s.params.StartTime))
	ctx := verifInstall(k, s, fresh, s.params.StartTime)
	ctx = ctx.WithBlockTime(T)
	amt, err := k.Mint(ctx)
	verif_assert(err == nil, "Mint returns no error")
	verif_assert(!amt.IsNegative(), "no negative mint")
	// reference
	total := sdk.ZeroInt()
	cur := 0
	for i := 0; i < n; i++ {
		e := s.params.Minters[i].EndTime
		if e != nil && !T.Before(*e) {
			total = total.Add(s.refCum(i, *e))
			cur = i + 1
			continue
		}
		total = total.Add(s.refCum(i, T))
		break
	}
	verif_assert(amt.Equal(total.Quo(vE18)), "minted(T) = integer part of the schedule's cumulative emission")
	verif_assert(verifCollected().Equal(amt), "collector received exactly the minted amount")
	st := k.GetMinterState(ctx)
	verif_assert(st.SequenceId == verifSeq(cur), "state points at the period containing T")
	verif_assert(st.LastMintBlockTime.Equal(T), "state advanced to T")
	verif_assert(verif_dec_rawint(st.RemainderToMint).Equal(total.Sub(total.Quo(vE18).Mul(vE18))), "remainder = fractional part of cumulative emission")
	for i := 0; i < cur; i++ {
		h, found := k.GetMinterStateHistory(ctx, verifSeq(i))
		verif_assert(found, "finished period has a history entry")
		if kinds[i] == kLin {
			cfg := s.params.Minters[i].Config.GetCachedValue().(*types.LinearMinting)
			verif_assert(h.AmountMinted.Equal(cfg.Amount), "finished linear period minted exactly its amount")
		}
		if kinds[i] == kNo {
			verif_assert(h.AmountMinted.IsZero(), "no-minting period minted nothing")
		}
	}
	verif_reach("reference checked")
}

// O1 + O2 + O5, inductive step: from an ARBITRARY state satisfying Inv_m, one block at any later T leaves a state that is a
// function of (schedule, T, carry chain) only — it does not depend on how much had been minted or when the last block was.
// Together with "returned = growth of AmountMinted over the periods touched" this gives partition independence by induction:
// blocks t1,t2 and the single block t2 end in the same state and have minted the same total. The post-state satisfies
// Inv_m with equality, no block is skipped as "negative".
func Verif_C02_step_from_inv() {
	vFirstIds = []uint32{1, 4} // the schedule does not depend on where the numbering of the periods starts
	nmax, K := verifSizes()
	n := verif_choice("n", nmax) + 1
	kinds := verifKinds(n, verif_choice("kinds", verifKindCount(n)))
	s := verifSchedule(n, kinds)
	cur := verif_choice("cur", n)
	// the block time is either one of the period ends itself (syntactically, so that the boundary instant is exact)
	// or an arbitrary instant different from every period end
	T := verif_time("T")
	if sel := verif_choice("Tsel", n); sel > 0 {
		T = *s.params.Minters[sel-1].EndTime
	} else {
		for i := 0; i < n-1; i++ {
			verif_assume(!T.Equal(*s.params.Minters[i].EndTime))
		}
	}
	for i := 0; i < n; i++ {
		s.assumeSteps(i, T, K)
	}
	st0 := verifInvState(s, cur, K)
	verif_assume(T.After(st0.LastMintBlockTime))
	// lemma discharged separately by Verif_C02_monotone: the schedule of one period is monotone in time
	fl := s.params.Minters[cur].AmountToMint(verifLogger{}, s.starts[cur], st0.LastMintBlockTime)
	fT := s.params.Minters[cur].AmountToMint(verifLogger{}, s.starts[cur], T)
	verif_assume(fl.LTE(fT))

	k := verifMinterKeeper()
	ctx := verifInstall(k, s, st0, st0.LastMintBlockTime)
	ctx = ctx.WithBlockTime(T)
	amt, err := k.Mint(ctx)
	verif_assert(err == nil, "Mint returns no error")
	verif_assert(!amt.IsNegative(), "no negative mint")
	st := k.GetMinterState(ctx)
	verif_assert(st.LastMintBlockTime.Equal(T), "block was processed (not skipped as negative)")

	c := verif_dec_rawint(st0.RemainderFromPreviousMinter)
	returned := sdk.ZeroInt()
	for j := cur; j < n; j++ {
		e := s.params.Minters[j].EndTime
		prevMinted := sdk.ZeroInt()
		if j == cur {
			prevMinted = st0.AmountMinted
		}
		if e != nil && !T.Before(*e) {
			X := s.refCum(j, *e).Add(c)
			h, found := k.GetMinterStateHistory(ctx, verifSeq(j))
			verif_assert(found, "finished period has a history entry")
			verif_assert(h.AmountMinted.Equal(X.Quo(vE18)), "finished period minted trunc(F + carry) in total")
			returned = returned.Add(X.Quo(vE18)).Sub(prevMinted)
			c = X.Sub(X.Quo(vE18).Mul(vE18))
			verif_assert(verif_dec_rawint(h.RemainderToMint).Equal(c), "history remainder = fraction carried on")
			continue
		}
		X := s.refCum(j, T).Add(c)
		verif_assert(st.SequenceId == verifSeq(j), "state points at the period containing T")
		verif_assert(st.AmountMinted.Equal(X.Quo(vE18)), "AmountMinted = trunc(f(T) + carry): independent of the pre-state")
		verif_assert(verif_dec_rawint(st.RemainderFromPreviousMinter).Equal(c), "carry comes from the previous period only")
		verif_assert(verif_dec_rawint(st.RemainderToMint).Equal(X.Sub(X.Quo(vE18).Mul(vE18))), "remainder = fraction of f(T)+carry")
		returned = returned.Add(X.Quo(vE18)).Sub(prevMinted)
		break
	}
	verif_assert(amt.Equal(returned), "returned amount = growth of AmountMinted over the periods touched")
	verif_assert(verifCollected().Equal(amt), "collector received exactly the returned amount")
	verif_assert(!st.RemainderFromPreviousMinter.IsNegative() && st.RemainderFromPreviousMinter.LT(sdk.OneDec()), "Inv: 0 <= carry < 1")
	verif_reach("step checked")
}

// Lemma used by the step harness: within one period the schedule is monotone in time (the code's own AmountToMint).
func Verif_C02_monotone() {
	_, K := verifSizes()
	kind := verif_choice("kind", 3)
	withEnd := verif_choice("withEnd", 2)
	if kind == kLin && withEnd == 0 {
		return // validation rejects a linear period without end
	}
	start := verif_time_unit("start", 1000000, vT0, vT1)
	m := &types.Minter{SequenceId: 1}
	var end time.Time
	if withEnd == 1 {
		end = verif_time_unit("end1", 1000000, vT0, vT1)
		verif_assume(!end.Before(start.Add(time.Second)))
		m.EndTime = &end
	}
	ta := verif_time("ta")
	tb := verif_time("tb")
	verif_assume(!ta.Before(start) && !tb.Before(ta))
	switch kind {
	case kNo:
		m.Config = verifAny(&types.NoMinting{})
	case kLin:
		m.Config = verifAny(&types.LinearMinting{Amount: verif_int_range("A1", "0", "1e36")})
	case kExp:
		cfg := &types.ExponentialStepMinting{
			Amount:           verif_int_range("A1", "1", "1e36"),
			AmountMultiplier: verif_dec_range("mult1", "0", "1000000000000000000"),
			StepDuration:     time.Duration(verif_i64_range("step1", 1000000000, 1000000000000000000)),
		}
		m.Config = verifAny(cfg)
		now := tb
		if withEnd == 1 && tb.After(end) {
			now = end
		}
		verif_assume(int64(now.Sub(start)) <= K*int64(cfg.StepDuration)+int64(cfg.StepDuration)-1)
	}
	fa := m.AmountToMint(verifLogger{}, start, ta)
	fb := m.AmountToMint(verifLogger{}, start, tb)
	verif_assert(!fa.IsNegative(), "emission is non-negative")
	verif_assert(fa.LTE(fb), "emission is monotone in time")
	verif_reach("monotone checked")
}

// Before the start time and at a repeated block time nothing is minted and the state does not move.
func Verif_C02_no_mint_outside() {
	kinds := verifKinds(2, verif_choice("kinds", verifKindCount(2)))
	s := verifSchedule(2, kinds)
	k := verifMinterKeeper()
	st0 := verifFreshState(s)
	T := verif_time("T")
	verif_assume(!T.After(s.params.StartTime))
	ctx := verifInstall(k, s, st0, T)
	amt, err := k.Mint(ctx)
	verif_assert(err == nil && amt.IsZero(), "nothing minted at or before the start")
	verif_assert(verifCollected().IsZero(), "no coins moved")
	verif_reach("outside checked")
}
