package keeper

// C09 (cfevesting part) — account-creating vesting messages never replace or alter an existing account.
// Code under test: SendToVestingAccount, CreateVestingAccount, SplitVesting, MoveAvailableVesting(+ByDenoms), splitVestingCoins,
// newVestingAccount, newContinuousVestingAccount, UnlockUnbondedContinuousVestingAccountCoins.

import (
	"github.com/chain4energy/c4e-chain/x/cfevesting/types"
	cryptotypes "github.com/cosmos/cosmos-sdk/crypto/types"
	sdk "github.com/cosmos/cosmos-sdk/types"
	authtypes "github.com/cosmos/cosmos-sdk/x/auth/types"
	vestingtypes "github.com/cosmos/cosmos-sdk/x/auth/vesting/types"
	"github.com/gogo/protobuf/proto"
)

const vTarget = "c4e:target"
const vSender = "c4e:sender"

type verifPubKey struct{ id string }

func (k *verifPubKey) Reset()                                  {}
func (k *verifPubKey) String() string                          { return "verifPubKey{" + k.id + "}" }
func (k *verifPubKey) ProtoMessage()                           {}
func (k *verifPubKey) Address() cryptotypes.Address            { return cryptotypes.Address([]byte(k.id)) }
func (k *verifPubKey) Bytes() []byte                           { return []byte(k.id) }
func (k *verifPubKey) VerifySignature(msg []byte, sig []byte) bool { return false }
func (k *verifPubKey) Equals(o cryptotypes.PubKey) bool        { return false }
func (k *verifPubKey) Type() string                            { return "verif" }

var _ proto.Message = (*verifPubKey)(nil)

// verifTargetState installs the target address in one of five states and returns a deep copy of the stored account.
func verifTargetState(ctx sdk.Context, kind int) interface{} {
	addr := verifAddr(vTarget)
	switch kind {
	case 0:
		return nil
	case 1:
		W.auth.SetAccount(ctx, W.auth.NewAccountWithAddress(ctx, addr))
	case 2:
		acc := W.auth.NewAccountWithAddress(ctx, addr)
		if err := acc.SetPubKey(&verifPubKey{"k1"}); err != nil {
			panic(err)
		}
		_ = acc.SetSequence(7)
		W.auth.SetAccount(ctx, acc)
	case 3:
		base := W.auth.NewAccountWithAddress(ctx, addr).(*authtypes.BaseAccount)
		W.auth.SetAccount(ctx, vestingtypes.NewContinuousVestingAccountRaw(vestingtypes.NewBaseVestingAccount(base, sdk.NewCoins(sdk.NewCoin(vDenom, sdk.NewInt(500))), vVT1), vVT0))
		W.bank.fund(addr, vDenom, sdk.NewInt(500))
	case 4:
		// a module account address (the vesting module's own account)
		W.auth.GetModuleAccount(ctx, types.ModuleName)
	}
	a := W.auth.GetAccount(ctx, addr)
	if kind == 4 {
		a = W.auth.GetAccount(ctx, verifModuleAddr(types.ModuleName))
	}
	return verif_deep_copy(a)
}

func Verif_C09_vesting_handlers() {
	k := verifVestingKeeper()
	T := verif_time_range("now", vVT0, vVT1)
	ctx := verifCtx(T)
	verifSetParams(k, ctx)
	verifVestingType(k, ctx, "vt")
	verifOwnerPools(k, ctx, 1, "vt")
	W.bank.fund(verifAddr(vOwner), vDenom, verif_int_range("ownerBalance", "0", vMaxAmt))
	// sender of split / move: a small continuous vesting account that is not vesting yet
	base := W.auth.NewAccountWithAddress(ctx, verifAddr(vSender)).(*authtypes.BaseAccount)
	W.auth.SetAccount(ctx, vestingtypes.NewContinuousVestingAccountRaw(vestingtypes.NewBaseVestingAccount(base, sdk.NewCoins(sdk.NewCoin(vDenom, sdk.NewInt(1000))), vVT1+1000000), vVT1))
	W.bank.fund(verifAddr(vSender), vDenom, sdk.NewInt(1000))
	senderBefore := verif_deep_copy(W.auth.GetAccount(ctx, verifAddr(vSender))).(*vestingtypes.ContinuousVestingAccount)

	kind := verif_choice("targetKind", 5)
	before := verifTargetState(ctx, kind)
	to := vTarget
	tAddr := verifAddr(vTarget)
	if kind == 4 {
		tAddr = verifModuleAddr(types.ModuleName)
		to = tAddr.String()
	}
	ms := NewMsgServerImpl(k)
	g := sdk.WrapSDKContext(ctx)
	amount := verif_int_range("amount", "0", vMaxAmt)
	var err error
	op := verif_choice("op", 5)
	switch op {
	case 0:
		_, err = ms.SendToVestingAccount(g, &types.MsgSendToVestingAccount{Owner: vOwner, ToAddress: to, VestingPoolName: "pool-a", Amount: amount, RestartVesting: verif_bool("restart")})
	case 1:
		_, err = ms.CreateVestingAccount(g, &types.MsgCreateVestingAccount{FromAddress: vOwner, ToAddress: to, Amount: sdk.Coins{sdk.Coin{Denom: vDenom, Amount: amount}},
			StartTime: verif_i64_range("startUnix", 0, 4000000000), EndTime: verif_i64_range("endUnix", 0, 4000000000)})
	case 2:
		_, err = ms.SplitVesting(g, &types.MsgSplitVesting{FromAddress: vSender, ToAddress: to, Amount: sdk.Coins{sdk.Coin{Denom: vDenom, Amount: verif_int_range("splitAmount", "0", "1001")}}})
	case 3:
		_, err = ms.MoveAvailableVesting(g, &types.MsgMoveAvailableVesting{FromAddress: vSender, ToAddress: to})
	case 4:
		_, err = ms.MoveAvailableVestingByDenoms(g, &types.MsgMoveAvailableVestingByDenoms{FromAddress: vSender, ToAddress: to, Denoms: []string{vDenom}})
	}
	after := W.auth.GetAccount(ctx, tAddr)
	if kind != 0 {
		verif_assert(err != nil, "an account-creating message aimed at an existing address is rejected")
		verif_assert(after != nil && verif_deep_equal(before, after), "existing account is unchanged (type, key, sequence, number, vesting schedule)")
		verif_reach("existing target untouched")
	} else if err == nil {
		_, isCva := after.(*vestingtypes.ContinuousVestingAccount)
		verif_assert(isCva, "a fresh address becomes a continuous vesting account")
		verif_reach("fresh target created")
	}
	// the sender of a split / move: only OriginalVesting may change, and only downwards
	s := W.auth.GetAccount(ctx, verifAddr(vSender)).(*vestingtypes.ContinuousVestingAccount)
	verif_assert(verif_deep_equal(senderBefore.BaseVestingAccount.BaseAccount, s.BaseVestingAccount.BaseAccount), "sender base account (address, key, number, sequence) unchanged")
	verif_assert(s.StartTime == senderBefore.StartTime && s.EndTime == senderBefore.EndTime, "sender schedule unchanged")
	verif_assert(s.OriginalVesting.IsAllLTE(senderBefore.OriginalVesting), "sender original vesting can only decrease")
	verif_assert(verif_deep_equal(senderBefore.DelegatedFree, s.DelegatedFree) && verif_deep_equal(senderBefore.DelegatedVesting, s.DelegatedVesting), "sender delegation tracking unchanged")
	if op < 2 {
		verif_assert(verif_deep_equal(senderBefore, s), "pool send / direct creation do not touch other accounts")
	}
}
