package keeper

// C09 (cfesignature part) — CreateAccount never replaces or alters an existing account.

import (
	"github.com/chain4energy/c4e-chain/x/cfesignature/types"
	sdk "github.com/cosmos/cosmos-sdk/types"
	authtypes "github.com/cosmos/cosmos-sdk/x/auth/types"
	vestingtypes "github.com/cosmos/cosmos-sdk/x/auth/vesting/types"
)

const vTarget = "c4e:target"

func Verif_C09_signature_create_account() {
	k := verifSignatureKeeper()
	ctx := verifCtx(verif_time_range("now", 1600000000, 1900000000))
	addr := verifAddr(vTarget)
	kind := verif_choice("targetKind", 5)
	target := vTarget
	switch kind {
	case 1:
		W.auth.SetAccount(ctx, W.auth.NewAccountWithAddress(ctx, addr))
	case 2:
		acc := W.auth.NewAccountWithAddress(ctx, addr)
		_ = acc.SetPubKey(&verifPubKey{"existing-key"})
		_ = acc.SetSequence(7)
		W.auth.SetAccount(ctx, acc)
	case 3:
		base := W.auth.NewAccountWithAddress(ctx, addr).(*authtypes.BaseAccount)
		W.auth.SetAccount(ctx, vestingtypes.NewContinuousVestingAccountRaw(vestingtypes.NewBaseVestingAccount(base, sdk.NewCoins(sdk.NewCoin("uc4e", sdk.NewInt(500))), 1900000000), 1600000000))
	case 4:
		W.auth.GetModuleAccount(ctx, types.ModuleName)
		addr = verifModuleAddr(types.ModuleName)
		target = addr.String()
	}
	before := verif_deep_copy(W.auth.GetAccount(ctx, addr))
	msg := &types.MsgCreateAccount{Creator: "c4e:anyone", AccAddressString: target, PubKeyString: verif_str("pubKeyJSON")}
	var err error
	panicked := verif_catch(func() {
		_, err = NewMsgServerImpl(k).CreateAccount(sdk.WrapSDKContext(ctx), msg)
	})
	after := W.auth.GetAccount(ctx, addr)
	if kind != 0 {
		verif_assert(after != nil && verif_deep_equal(before, after), "existing account is unchanged (type, key, sequence, number, vesting schedule)")
		verif_assert(panicked || err != nil, "creation over an existing address does not report success")
		verif_reach("existing target untouched")
	} else if !panicked && err == nil {
		verif_assert(after != nil, "a fresh address gets an account")
		verif_reach("fresh account created")
	}
}
