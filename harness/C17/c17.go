package keeper

// C17 — genesis lineage of vesting accounts and the vesting summaries.
// Code under test: the trace write in SendToNewVestingAccount, its propagation in splitVestingCoins, Append/Get/SetVestingAccountTrace,
// createVestingsSummary, VestingsSummary / GenesisVestingsSummary, AccountVestingPoolsList.GetGenesisAmount and — executed from the SDK's
// source — ContinuousVestingAccount.GetVestingCoins / LockedCoins.

import (
	"github.com/chain4energy/c4e-chain/x/cfevesting/types"
	sdk "github.com/cosmos/cosmos-sdk/types"
	authtypes "github.com/cosmos/cosmos-sdk/x/auth/types"
	vestingtypes "github.com/cosmos/cosmos-sdk/x/auth/vesting/types"
)

// Lineage, one inductive step with a ghost flag G(a) = "a is genesis-derived": a pool send sets G(new) = pool.GenesisPool,
// a split / move sets G(new) = G(source); an untraced source yields an untraced recipient. Chains of any depth follow by induction.
func Verif_C17_lineage_step() {
	k := verifVestingKeeper()
	T := verif_time_range("now", vVT0, vVT0+1000)
	ctx := verifCtx(T)
	verifSetParams(k, ctx)
	verifVestingType(k, ctx, "vt")
	ms := NewMsgServerImpl(k)
	g := sdk.WrapSDKContext(ctx)
	const to = "c4e:recipient"
	switch verif_choice("op", 4) {
	case 0: // send from a pool
		avp := verifOwnerPools(k, ctx, 1, "vt")
		pool := avp.VestingPools[0]
		_, err := ms.SendToVestingAccount(g, &types.MsgSendToVestingAccount{Owner: vOwner, ToAddress: to, VestingPoolName: pool.Name,
			Amount: verif_int_range("amount", "0", vMaxAmt), RestartVesting: verif_bool("restart")})
		tr, found := k.GetVestingAccountTrace(ctx, to)
		if err == nil {
			verif_assert(found, "a vesting account created from a pool is recorded")
			verif_assert(tr.IsGenesisOrFromGenesis() == pool.GenesisPool, "it is genesis-derived exactly when the pool is a genesis pool")
			verif_assert(tr.Address == to, "the record names the new account")
			verif_reach("pool send recorded")
		} else {
			verif_assert(!found, "a rejected send records nothing")
		}
	default: // split / move / move-by-denoms from an account that is or is not recorded
		base := W.auth.NewAccountWithAddress(ctx, verifAddr(vOther)).(*authtypes.BaseAccount)
		W.auth.SetAccount(ctx, vestingtypes.NewContinuousVestingAccountRaw(vestingtypes.NewBaseVestingAccount(base, sdk.NewCoins(sdk.NewCoin(vDenom, sdk.NewInt(1000))), vVT1+1000000), vVT1))
		W.bank.fund(verifAddr(vOther), vDenom, sdk.NewInt(1000))
		traced := verif_bool("sourceTraced")
		src := types.VestingAccountTrace{Address: vOther, Genesis: verif_bool("srcGenesis"), FromGenesisPool: verif_bool("srcFromPool"), FromGenesisAccount: verif_bool("srcFromAccount")}
		if traced {
			k.AppendVestingAccountTrace(ctx, src)
		}
		var err error
		switch verif_choice("kind", 3) {
		case 0:
			_, err = ms.SplitVesting(g, &types.MsgSplitVesting{FromAddress: vOther, ToAddress: to, Amount: sdk.Coins{sdk.Coin{Denom: vDenom, Amount: verif_int_range("splitAmount", "1", "1000")}}})
		case 1:
			_, err = ms.MoveAvailableVesting(g, &types.MsgMoveAvailableVesting{FromAddress: vOther, ToAddress: to})
		case 2:
			_, err = ms.MoveAvailableVestingByDenoms(g, &types.MsgMoveAvailableVestingByDenoms{FromAddress: vOther, ToAddress: to, Denoms: []string{vDenom}})
		}
		tr, found := k.GetVestingAccountTrace(ctx, to)
		if err == nil {
			verif_assert(found == traced, "the recipient is recorded exactly when the source is")
			if found {
				verif_assert(tr.IsGenesisOrFromGenesis() == src.IsGenesisOrFromGenesis(), "the recipient is genesis-derived exactly when the source is")
				verif_assert(!tr.Genesis, "only genesis accounts themselves carry the genesis flag")
			}
			verif_reach("split recorded")
		} else {
			verif_assert(!found, "a rejected split records nothing")
		}
		// the source's own record is untouched
		s2, f2 := k.GetVestingAccountTrace(ctx, vOther)
		verif_assert(f2 == traced && (!traced || (s2.Genesis == src.Genesis && s2.FromGenesisPool == src.FromGenesisPool && s2.FromGenesisAccount == src.FromGenesisAccount)), "the source's record is unchanged")
	}
}

// Summaries equal the sums recomputed from bank and account state.
func Verif_C17_summaries() {
	k := verifVestingKeeper()
	// elapsed fraction of the two vesting accounts' schedule: concrete grid (see C07), amounts symbolic
	start, length := int64(1700000000), int64(1000000)
	grid := []int64{-5, length / 2, length / 4, length + 7}
	ctx := verifCtx(verifUnix(start + grid[verif_choice("elapsed", len(grid))]))
	verifSetParams(k, ctx)
	// pools: one owner with a genesis and a non-genesis pool
	avp := types.AccountVestingPools{Owner: vOwner, VestingPools: []*types.VestingPool{verifPool(0, "vt"), verifPool(1, "vt")}}
	verif_assume(avp.Validate() == nil)
	k.SetAccountVestingPools(ctx, avp)
	W.bank.fund(verifModuleAddr(types.ModuleName), vDenom, verifSumLocked(avp))
	genesisPools := sdk.ZeroInt()
	for _, p := range avp.VestingPools {
		if p.GenesisPool {
			genesisPools = genesisPools.Add(p.GetCurrentlyLocked())
		}
	}
	// two recorded continuous vesting accounts (one possibly with delegated vesting) and one recorded address that is a plain account
	vestingSum, lockedSum, gVestingSum, gLockedSum := sdk.ZeroInt(), sdk.ZeroInt(), sdk.ZeroInt(), sdk.ZeroInt()
	for i, addr := range []string{"c4e:va1", "c4e:va2"} {
		id := string(rune('1' + i))
		ov := verif_int_range("OV"+id, "1", "1e30")
		base := W.auth.NewAccountWithAddress(ctx, verifAddr(addr)).(*authtypes.BaseAccount)
		cva := vestingtypes.NewContinuousVestingAccountRaw(vestingtypes.NewBaseVestingAccount(base, sdk.NewCoins(sdk.NewCoin(vDenom, ov)), start+length), start)
		if i == 1 {
			dv := verif_int_range("delegated"+id, "0", "1e30")
			verif_assume(dv.LTE(ov))
			if dv.IsPositive() {
				cva.DelegatedVesting = sdk.NewCoins(sdk.NewCoin(vDenom, dv))
			}
		}
		W.auth.SetAccount(ctx, cva)
		tr := types.VestingAccountTrace{Address: addr, Genesis: verif_bool("genesis" + id + "a"), FromGenesisPool: verif_bool("fromPool" + id)}
		k.AppendVestingAccountTrace(ctx, tr)
		vesting := cva.GetVestingCoins(ctx.BlockTime()).AmountOf(vDenom)
		locked := cva.LockedCoins(ctx.BlockTime()).AmountOf(vDenom)
		vestingSum, lockedSum = vestingSum.Add(vesting), lockedSum.Add(locked)
		if tr.IsGenesisOrFromGenesis() {
			gVestingSum, gLockedSum = gVestingSum.Add(vesting), gLockedSum.Add(locked)
		}
	}
	W.auth.SetAccount(ctx, W.auth.NewAccountWithAddress(ctx, verifAddr("c4e:plain")))
	k.AppendVestingAccountTrace(ctx, types.VestingAccountTrace{Address: "c4e:plain", Genesis: true})

	all, err := k.VestingsSummary(sdk.WrapSDKContext(ctx), &types.QueryVestingsSummaryRequest{})
	verif_assert(err == nil && all != nil, "summary query succeeds")
	if err == nil {
		verif_assert(all.VestingInPoolsAmount.Equal(verifModuleBal(vDenom)), "pools part = vesting module balance")
		verif_assert(all.VestingInAccountsAmount.Equal(vestingSum), "accounts part = still-vesting coins of the recorded accounts")
		verif_assert(all.VestingAllAmount.Equal(vestingSum.Add(verifModuleBal(vDenom))), "total = pools + accounts")
		verif_assert(all.DelegatedVestingAmount.Equal(vestingSum.Sub(lockedSum)), "delegated = vesting - locked")
	}
	gen, gerr := k.GenesisVestingsSummary(sdk.WrapSDKContext(ctx), &types.QueryGenesisVestingsSummaryRequest{})
	verif_assert(gerr == nil && gen != nil, "genesis summary query succeeds")
	if gerr == nil {
		verif_assert(gen.VestingInPoolsAmount.Equal(genesisPools), "genesis pools part = still locked in genesis pools")
		verif_assert(gen.VestingInAccountsAmount.Equal(gVestingSum), "genesis accounts part = still-vesting coins of genesis-derived accounts")
		verif_assert(gen.VestingAllAmount.Equal(gVestingSum.Add(genesisPools)), "genesis total = pools + accounts")
		verif_assert(gen.DelegatedVestingAmount.Equal(gVestingSum.Sub(gLockedSum)), "genesis delegated = vesting - locked")
	}
	verif_reach("summaries checked")
}
