package keeper

// C13 (cfeminter part) — only governance changes the minter parameters; stored parameters stay valid and keep the current period.
// Code under test: msgServer.UpdateParams, msgServer.UpdateMintersParams, Keeper.UpdateParams, SetParams, Params.Validate, ContainsMinter.

import (
	"time"

	"github.com/chain4energy/c4e-chain/x/cfeminter/types"
	sdk "github.com/cosmos/cosmos-sdk/types"
)

// verifArbitraryMinters: a payload of n minters that validation may accept or reject: arbitrary ids, optional end times,
// any config kind incl. a nil config, nil / negative amounts, non-positive steps, nil elements.
func verifArbitraryMinters(n int) []*types.Minter {
	var ms []*types.Minter
	for i := 0; i < n; i++ {
		id := "n" + idx(i)
		if verif_choice("nilMinter"+id, 4) == 3 {
			ms = append(ms, nil)
			continue
		}
		m := &types.Minter{SequenceId: uint32(verif_i64_range("seq"+id, 0, 4))}
		if verif_choice("hasEnd"+id, 2) == 1 {
			e := verif_time_unit("newEnd"+id, 1000000, vT0, vT1)
			m.EndTime = &e
		}
		switch verif_choice("newKind"+id, 5) {
		case 0:
			m.Config = verifAny(&types.NoMinting{})
		case 1:
			m.Config = verifAny(&types.LinearMinting{Amount: verif_int_range("newA"+id, "-5", "1e36")})
		case 2:
			m.Config = verifAny(&types.ExponentialStepMinting{Amount: verif_int_range("newA"+id, "-5", "1e36"),
				AmountMultiplier: verif_dec_range("newMult"+id, "-5", "2000000000000000000"), StepDuration: time.Duration(verif_i64_range("newStep"+id, -5, 1000000000000000000))})
		case 3:
			m.Config = verifAny(&types.LinearMinting{Amount: verif_int_nil()})
		case 4:
			m.Config = nil
		}
		ms = append(ms, m)
	}
	return ms
}

// stored parameters: one of two representative valid two-period schedules (linear+no-minting, exponential+exponential)
func verifC13Stored() (verifSched, int) {
	kinds := []int{kLin, kNo}
	if verif_choice("storedShape", 2) == 1 {
		kinds = []int{kExp, kExp}
	}
	return verifSchedule(2, kinds), 2
}

func verifC13Install() (Keeper, sdk.Context, types.Params) {
	s, n := verifC13Stored()
	k := verifMinterKeeper()
	cur := verif_choice("cur", n)
	st := types.MinterState{SequenceId: uint32(cur + 1), AmountMinted: verif_int_range("minted", "0", "1e40"), RemainderToMint: sdk.ZeroDec(),
		RemainderFromPreviousMinter: sdk.ZeroDec(), LastMintBlockTime: s.params.StartTime}
	ctx := verifInstall(k, s, st, verif_time_range("now", vT0, vT1))
	return k, ctx, k.GetParams(ctx)
}

// Any payload, sent by the governance authority: either rejected with the store untouched, or the stored result is valid.
func Verif_C13_minter_updates() {
	k, ctx, before := verifC13Install()
	snapshot := verif_deep_copy(before)
	newMinters := verifArbitraryMinters(verif_choice("newN", 2) + 1)
	newStart := verif_time_unit("newStart", 1000000, vT0, vT1)
	ms := NewMsgServerImpl(k)
	var err error
	full := verif_choice("fullUpdate", 2) == 1
	panicked := verif_catch(func() {
		if full {
			_, err = ms.UpdateParams(sdk.WrapSDKContext(ctx), &types.MsgUpdateParams{Authority: "gov", MintDenom: verif_str_in("newDenom", "uc4e", "", "unew"), StartTime: newStart, Minters: newMinters})
		} else {
			_, err = ms.UpdateMintersParams(sdk.WrapSDKContext(ctx), &types.MsgUpdateMintersParams{Authority: "gov", StartTime: newStart, Minters: newMinters})
		}
	})
	after := k.GetParams(ctx)
	if panicked || err != nil {
		verif_assert(verif_deep_equal(snapshot, after), "a rejected update leaves the stored parameters intact")
		verif_reach("update rejected")
		return
	}
	verif_assert(after.Validate() == nil, "stored parameters satisfy the module's validation rules")
	verif_assert(after.ContainsMinter(k.GetMinterState(ctx).SequenceId), "the minter's current period exists in the stored configuration")
	if !full {
		verif_assert(after.MintDenom == before.MintDenom, "a partial update does not touch the mint denom")
	}
	verif_reach("update applied")
}

// A valid payload from any signer: only the governance authority gets it applied.
func Verif_C13_minter_authority() {
	k, ctx, before := verifC13Install()
	snapshot := verif_deep_copy(before)
	authority := verif_str_in("authority", "gov", "c4e:someone", "", "Gov")
	ms := NewMsgServerImpl(k)
	newStart := verif_time_unit("newStart", 1000000, vT0, vT1)
	verif_assume(newStart.Before(*before.Minters[0].EndTime))
	var err error
	if verif_choice("fullUpdate", 2) == 1 {
		_, err = ms.UpdateParams(sdk.WrapSDKContext(ctx), &types.MsgUpdateParams{Authority: authority, MintDenom: "unew", StartTime: newStart, Minters: before.Minters})
	} else {
		_, err = ms.UpdateMintersParams(sdk.WrapSDKContext(ctx), &types.MsgUpdateMintersParams{Authority: authority, StartTime: newStart, Minters: before.Minters})
	}
	after := k.GetParams(ctx)
	if authority != "gov" {
		verif_assert(err != nil, "a signer other than the governance authority is rejected")
		verif_assert(verif_deep_equal(snapshot, after), "a rejected update leaves the stored parameters intact")
		verif_reach("foreign signer rejected")
		return
	}
	verif_assert(err == nil && after.StartTime.Equal(newStart), "the governance authority's valid update is applied")
	verif_reach("authority update applied")
}
