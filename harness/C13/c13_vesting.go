package keeper

// C13 (cfevesting part) — only governance changes the vesting denom, never while pools exist, and the stored denom stays valid.

import (
	"github.com/chain4energy/c4e-chain/x/cfevesting/types"
	sdk "github.com/cosmos/cosmos-sdk/types"
)

func Verif_C13_vesting_denom() {
	k := verifVestingKeeper()
	ctx := verifCtx(verif_time_range("now", vVT0, vVT1))
	verifSetParams(k, ctx)
	npools := verif_choice("owners", 3)
	if npools >= 1 {
		verifOwnerPools(k, ctx, 1, "vt")
	}
	if npools == 2 {
		k.SetAccountVestingPools(ctx, types.AccountVestingPools{Owner: vOther}) // an owner entry with an empty pool list
	}
	authority := verif_str_in("authority", "c4e:gov", "c4e:someone", "")
	denom := verif_str_in("newDenom", "unew", "", "uc4e")
	_, err := NewMsgServerImpl(k).UpdateDenomParam(sdk.WrapSDKContext(ctx), &types.MsgUpdateDenomParam{Authority: authority, Denom: denom})
	after := k.GetParams(ctx)
	if authority != "c4e:gov" {
		verif_assert(err != nil, "a signer other than the governance authority is rejected")
	}
	if err != nil {
		verif_assert(after.Denom == vDenom, "a rejected update leaves the denom intact")
		verif_reach("update rejected")
		return
	}
	verif_assert(authority == "c4e:gov", "only the governance authority can change the denom")
	verif_assert(npools == 0, "the denom cannot change while vesting pools exist")
	verif_assert(after.Validate() == nil && after.Denom == denom, "stored denom is the requested one and valid")
	verif_reach("update applied")
}
