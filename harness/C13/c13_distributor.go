package keeper

// C13 (cfedistributor part) — only governance changes the sub-distributors; every accepted full or partial update leaves
// stored parameters that satisfy Params.Validate; a rejected update changes nothing.

import (
	"github.com/chain4energy/c4e-chain/x/cfedistributor/types"
	sdk "github.com/cosmos/cosmos-sdk/types"
)

var c13Src = []types.Account{{Type: types.Main}, {Type: types.InternalAccount, Id: "int1"}, {Type: types.ModuleAccount, Id: dVRC}}
var c13Dst = []types.Account{{Type: types.ModuleAccount, Id: dGBC}, {Type: types.InternalAccount, Id: "int1"}, {Type: types.BaseAccount, Id: dBase2}, {Type: types.Main}}

// stored parameters: one of two representative valid shapes with symbolic shares
func verifC13Stored() types.Params {
	burn := func(tag string) sdk.Dec { return verif_dec_range(tag, "0", "499999999999999999") }
	var p types.Params
	if verif_choice("storedShape", 2) == 0 {
		p = types.Params{SubDistributors: []types.SubDistributor{{Name: "sd1", Sources: []*types.Account{{Type: types.Main}},
			Destinations: types.Destinations{PrimaryShare: c13Dst[0], BurnShare: burn("sburn1"),
				Shares: []*types.DestinationShare{{Name: "share1", Share: burn("sshare1"), Destination: c13Dst[2]}}}}}}
	} else {
		p = types.Params{SubDistributors: []types.SubDistributor{
			{Name: "sd1", Sources: []*types.Account{{Type: types.Main}}, Destinations: types.Destinations{PrimaryShare: c13Dst[1], BurnShare: burn("sburn1"),
				Shares: []*types.DestinationShare{{Name: "share1", Share: burn("sshare1"), Destination: c13Dst[0]}}}},
			{Name: "sd2", Sources: []*types.Account{{Type: types.InternalAccount, Id: "int1"}}, Destinations: types.Destinations{PrimaryShare: c13Dst[2], BurnShare: burn("sburn2")}}}}
	}
	verif_assume(p.Validate() == nil)
	return p
}

func Verif_C13_distributor_updates() {
	k := verifDistKeeper()
	ctx := verifCtx(verif_time_range("now", 1600000000, 1900000000))
	stored := verifC13Stored()
	if err := k.SetParams(ctx, stored); err != nil {
		verif_fail("SetParams rejects parameters that Validate accepted")
	}
	snapshot := verif_deep_copy(k.GetParams(ctx))
	authority := verif_str_in("authority", "c4e:gov", "c4e:someone", "")
	ms := NewMsgServerImpl(k)
	g := sdk.WrapSDKContext(ctx)
	var err error
	panicked := verif_catch(func() {
		switch verif_choice("op", 4) {
		case 0: // full replacement by an arbitrary (possibly invalid) list
			var subs []types.SubDistributor
			for i := 0; i < verif_choice("newN", 3); i++ {
				sd := verifSubFrom(i+2, 1, verif_choice("newWithShare"+string(rune('1'+i)), 2) == 1, c13Src, c13Dst)
				sd.Name = verif_str_in("newName"+string(rune('1'+i)), "sd1", "sd2", "")
				subs = append(subs, sd)
			}
			_, err = ms.UpdateParams(g, &types.MsgUpdateParams{Authority: authority, SubDistributors: subs})
		case 1: // replace one sub-distributor
			sd := verifSubFrom(3, verif_choice("newNsrc", 2)+1, verif_choice("newWithShare", 2) == 1, c13Src, c13Dst)
			sd.Name = verif_str_in("newName", "sd1", "sd2", "sd9")
			_, err = ms.UpdateSubDistributorParam(g, &types.MsgUpdateSubDistributorParam{Authority: authority, SubDistributor: &sd})
		case 2: // change one destination share
			_, err = ms.UpdateSubDistributorDestinationShareParam(g, &types.MsgUpdateSubDistributorDestinationShareParam{Authority: authority,
				SubDistributorName: verif_str_in("sdName", "sd1", "sd2", "sd9"), DestinationName: verif_str_in("dstName", "share1", "share2", "nope"),
				Share: verif_dec_range("newShare", "-5", "2000000000000000000")})
		case 3: // change one burn share
			_, err = ms.UpdateSubDistributorBurnShareParam(g, &types.MsgUpdateSubDistributorBurnShareParam{Authority: authority,
				SubDistributorName: verif_str_in("sdName", "sd1", "sd2", "sd9"), BurnShare: verif_dec_range("newBurn", "-5", "2000000000000000000")})
		}
	})
	after := k.GetParams(ctx)
	if authority != "c4e:gov" {
		verif_assert(panicked || err != nil, "a signer other than the governance authority is rejected")
	}
	if panicked || err != nil {
		verif_assert(verif_deep_equal(snapshot, after), "a rejected update leaves the stored parameters intact")
		verif_reach("update rejected")
		return
	}
	verif_assert(authority == "c4e:gov", "only the governance authority can change parameters")
	verif_assert(after.Validate() == nil, "stored parameters satisfy the module's validation rules")
	verif_reach("update applied")
}
