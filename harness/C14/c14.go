package keeper

// C14 — failed transfers in the distributor lose nothing and are made up later.
// Code under test: as C03 (block loop, PrepareCoinsToDistribute, StartDistributionProcess, SendCoinsFromStates, burnCoins, sendCoinsTo*),
// with every SendCoins* / BurnCoins call of the bank failing or not according to a fresh symbolic flag per call.

import (
	"github.com/chain4energy/c4e-chain/x/cfedistributor/types"
	sdk "github.com/cosmos/cosmos-sdk/types"
)

// For every fault pattern the accounting identity of C03 holds after the block.
func Verif_C14_books_under_faults() {
	k := verifDistKeeper()
	ctx := verifCtx(verif_time_range("now", 1600000000, 1900000000))
	p := verifC03Config()
	if err := k.SetParams(ctx, p); err != nil {
		verif_fail("SetParams rejects parameters that Validate accepted")
	}
	verifC03Books(k, ctx, p)
	supplyBefore := W.bank.supplyOf(dDenom)
	total := sdk.ZeroInt()
	for _, b := range W.bank.bals {
		if b.denom == dDenom {
			total = total.Add(b.amt)
		}
	}
	W.bank.faults = true
	if verif_tier() == 0 {
		W.bank.maxFaults = 2 // quick: only the first two bank calls of the block may fail (each independently)
	}
	verifBeginBlock(ctx, k)
	W.bank.faults = false
	verifC03Post(k, ctx)
	burned := sdk.ZeroInt()
	for _, c := range W.bank.calls {
		if c.op == "burn" && c.ok {
			burned = burned.Add(c.amt.AmountOf(dDenom))
		}
	}
	verif_assert(W.bank.supplyOf(dDenom).Equal(supplyBefore.Sub(burned)), "supply shrinks exactly by the burns that succeeded")
	after := sdk.ZeroInt()
	for _, b := range W.bank.bals {
		if b.denom == dDenom {
			after = after.Add(b.amt)
		}
	}
	verif_assert(after.Equal(total.Sub(burned)), "no coin is lost: balances change only by successful burns")
	verif_reach("faulty block checked")
}

type c14Result struct {
	gbc, b2, burnt sdk.Dec
}

// Twin run: a block in which any subset of the bank calls fails, followed by a fault-free block, delivers (balance + recorded
// leftover) to every destination what two fault-free blocks deliver, up to the 1e-18 truncation of the shares.
func Verif_C14_made_up_later() {
	shape := verif_choice("shape", 2)
	// generic position: every share of every block is worth at least ten coins, so every destination is paid in every block
	// (the sub-coin corner cases of the payout logic are covered by C03 / books_under_faults)
	burn := verif_dec_range("burn1", "100000000000000000", "400000000000000000")
	share := verif_dec_range("share1", "100000000000000000", "400000000000000000")
	in1 := verif_int_range("inflowBlock1", "100", dMaxAmt)
	in2 := verif_int_range("inflowBlock2", "100", dMaxAmt)
	run := func(faulty bool) c14Result {
		k := verifDistKeeper()
		ctx := verifCtx(verif_time_range("now", 1600000000, 1900000000))
		srcs := []*types.Account{{Type: types.Main}}
		if shape == 1 {
			srcs = []*types.Account{{Type: types.ModuleAccount, Id: dVRC}, {Type: types.Main}}
		}
		gbc := types.Account{Type: types.ModuleAccount, Id: dGBC}
		b2 := types.Account{Type: types.BaseAccount, Id: dBase2}
		sd := types.SubDistributor{Name: "sd1", Sources: srcs, Destinations: types.Destinations{PrimaryShare: gbc, BurnShare: burn,
			Shares: []*types.DestinationShare{{Name: "share1", Share: share, Destination: b2}}}}
		p := types.Params{SubDistributors: []types.SubDistributor{sd}}
		verif_assume(p.Validate() == nil)
		if err := k.SetParams(ctx, p); err != nil {
			verif_fail("SetParams rejects parameters that Validate accepted")
		}
		fundAddr := verifModuleAddr(dMain)
		if shape == 1 {
			fundAddr = verifModuleAddr(dVRC)
		}
		W.bank.fund(fundAddr, dDenom, in1)
		// quick: in the faulty world every bank call of the first block fails; thorough: an independent symbolic flag per call
		if verif_tier() > 0 {
			W.bank.faults = faulty
		} else {
			W.bank.failAll = faulty
		}
		verifBeginBlock(ctx, k)
		W.bank.faults, W.bank.failAll = false, false
		W.bank.fund(fundAddr, dDenom, in2)
		verifBeginBlock(ctx, k)
		states := k.GetAllStates(ctx)
		burnt := sdk.ZeroInt()
		for _, c := range W.bank.calls {
			if c.op == "burn" && c.ok {
				burnt = burnt.Add(c.amt.AmountOf(dDenom))
			}
		}
		return c14Result{
			gbc:   sdk.NewDecFromInt(verifBalOfAcc(gbc, dDenom)).Add(verifStateRemains(states, false, gbc)),
			b2:    sdk.NewDecFromInt(verifBalOfAcc(b2, dDenom)).Add(verifStateRemains(states, false, b2)),
			burnt: sdk.NewDecFromInt(burnt).Add(verifStateRemains(states, true, types.Account{})),
		}
	}
	a := run(true)
	b := run(false)
	eps := sdk.NewDecWithPrec(4, 18)
	verif_assert(a.gbc.Sub(b.gbc).Abs().LT(eps) && a.b2.Sub(b.b2).Abs().LT(eps) && a.burnt.Sub(b.burnt).Abs().LT(eps),
		"after a fault-free block every destination holds (paid + recorded leftover) what it would hold without the failures")
	verif_reach("twin checked")
}
