package keeper

// C15 — payload links are write-once; verification is a function of exactly the stored record.
// Code under test: msgServer.PublishReferencePayloadLink, checkIfPayloadLinkExists, AppendPayloadLink, msgServer.StoreSignature,
// AppendSignature, GetSignature, GetPayloadLink, Keeper.VerifySignature, isValidSignature, Keeper.CreateStorageKey, util.HashConcat,
// util.GetSignatureAlgorithmFromString (the hash / base64 / x509 primitives are uninterpreted functions).

import (
	"crypto/x509"

	"github.com/chain4energy/c4e-chain/x/cfesignature/types"
	"github.com/cosmos/cosmos-sdk/store/prefix"
	sdk "github.com/cosmos/cosmos-sdk/types"
)

func verifRawLink(k Keeper, ctx sdk.Context, key string) ([]byte, bool) {
	store := prefix.NewStore(ctx.KVStore(k.storeKey), []byte(types.PayloadLinkKey))
	b := store.Get([]byte(key))
	return b, b != nil
}

// A published payload link can never be overwritten or removed by any later publish / store message.
func Verif_C15_links_write_once() {
	verifJSONStringsOnly = true // which keys a document has does not matter for where StoreSignature writes
	k := verifSignatureKeeper()
	ctx := verifCtx(verif_time_range("now", 1600000000, 1900000000))
	k0 := verif_str("existingKey")
	v0 := verif_str("existingValue")
	verif_assume(len(k0) > 0)
	ms := NewMsgServerImpl(k)
	g := sdk.WrapSDKContext(ctx)
	_, err0 := ms.PublishReferencePayloadLink(g, &types.MsgPublishReferencePayloadLink{Creator: "c4e:a", Key: k0, Value: v0})
	verif_assert(err0 == nil, "first publication at a fresh key succeeds")
	for i := 0; i < 2; i++ {
		id := string(rune('1' + i))
		if verif_choice("op"+id, 2) == 0 {
			key := verif_str("key" + id)
			verif_assume(len(key) > 0)
			_, err := ms.PublishReferencePayloadLink(g, &types.MsgPublishReferencePayloadLink{Creator: "c4e:b", Key: key, Value: verif_str("value" + id)})
			if key == k0 {
				verif_assert(err != nil, "publishing at an occupied key is rejected")
			}
		} else {
			sk := verif_str("storageKey" + id)
			verif_assume(len(sk) > 0)
			_, _ = ms.StoreSignature(g, &types.MsgStoreSignature{Creator: "c4e:b", StorageKey: sk, SignatureJSON: verif_str("sigJSON" + id)})
		}
		b, found := verifRawLink(k, ctx, k0)
		verif_assert(found && verif_bytes_str(b) == v0, "the published link is still present and unchanged")
	}
	verif_reach("write-once checked")
}

// Verification reports valid exactly when the stored signature verifies under the stored certificate and algorithm over
// H(address:referenceId:storedLink), and echoes the stored record unchanged.
func Verif_C15_verify_sound() {
	k := verifSignatureKeeper()
	ctx := verifCtx(verif_time_range("now", 1600000000, 1900000000))
	addr := verif_str("address")
	ref := verif_str("referenceId")
	link := verif_str("payloadLink")
	stored := types.Signature{Signature: verif_str("sig"), Algorithm: verif_str_in("alg", "ecdsaWithSha256", "sha256WithRsaEncryption", "dsaWithSha256", "md5"),
		Certificate: verif_str("cert"), Timestamp: verif_str("ts")}
	hasSig := verif_bool("hasSignature")
	hasLink := verif_bool("hasLink")
	if hasSig {
		k.AppendSignature(ctx, model_CalculateHash(addr+":"+ref), stored)
	}
	if hasLink {
		_ = k.AppendPayloadLink(ctx, model_CalculateHash(ref), link)
	}
	resp, err := k.VerifySignature(sdk.WrapSDKContext(ctx), &types.QueryVerifySignatureRequest{TargetAccAddress: addr, ReferenceId: ref})

	wellFormedReq := len(ref) == 64 && len(addr) > 0
	payload := model_CalculateHash(addr + ":" + ref + ":" + link)
	algOK := stored.Algorithm != "md5"
	var algo int64
	switch stored.Algorithm {
	case "dsaWithSha256":
		algo = int64(x509.DSAWithSHA256)
	case "ecdsaWithSha256":
		algo = int64(x509.ECDSAWithSHA256)
	case "sha256WithRsaEncryption":
		algo = int64(x509.SHA256WithRSA)
	}
	expectValid := wellFormedReq && hasSig && hasLink &&
		verif_uf_bool("b64_wellformed", stored.Signature) && algOK && verif_uf_bool("cert_wellformed", stored.Certificate) &&
		verif_uf_bool("Chk_signature", verif_uf_str("Cert_parse", stored.Certificate), algo, payload, verif_uf_str("B64_decode", stored.Signature))
	verif_assert((err == nil) == expectValid, "valid <=> stored signature verifies under stored certificate and algorithm over H(address:reference:storedLink)")
	if err == nil {
		verif_assert(resp != nil && resp.Valid == "valid", "a successful verification says valid")
		verif_assert(resp.Signature == stored.Signature, "response returns the stored signature")
		verif_assert(resp.Algorithm == stored.Algorithm, "response returns the stored algorithm")
		verif_assert(resp.Certificate == stored.Certificate, "response returns the stored certificate")
		verif_assert(resp.Timestamp == stored.Timestamp, "response returns the stored timestamp")
		verif_reach("valid verification")
	} else {
		verif_reach("verification rejected")
	}
}
