package keeper

// Shared set-up for the cfevesting harnesses (overlaid into x/cfevesting/keeper).

import (
	"time"

	"cosmossdk.io/math"
	"github.com/chain4energy/c4e-chain/x/cfevesting/types"
	sdk "github.com/cosmos/cosmos-sdk/types"
	authtypes "github.com/cosmos/cosmos-sdk/x/auth/types"
)

const (
	vOwner  = "c4e:owner"
	vOther  = "c4e:other"
	vDenom  = "uc4e"
	vVT0    = 1600000000
	vVT1    = 1900000000
	vMaxAmt = "1e30"
)

func verifVestingKeeper() Keeper {
	verifNewWorld()
	W.auth.addPerm(types.ModuleName)
	W.auth.addPerm("fee_collector", authtypes.Burner)
	k := Keeper{cdc: verifCodec{}, storeKey: &verifStoreKey{types.StoreKey}, bank: W.bank, account: W.auth, authority: "c4e:gov"}
	return k
}

func verifAddr(s string) sdk.AccAddress {
	a, err := sdk.AccAddressFromBech32(s)
	if err != nil {
		panic("verif: bad model address " + s)
	}
	return a
}

func verifModuleBal(denom string) math.Int {
	return W.bank.balance(verifAddrKey(verifModuleAddr(types.ModuleName)), denom)
}

func verifBalOf(addr string, denom string) math.Int {
	return W.bank.balance(verifAddrKey(verifAddr(addr)), denom)
}

var vPoolNames = []string{"pool-a", "pool-b", "pool-c"}

// latest lock end a harness explores (seconds). C06 widens it beyond 2262-04-11, where Time.UnixNano no longer fits in an int64
// (pool durations of up to ~292 years are accepted by MsgCreateVestingPool).
var vLockEndMax int64 = vVT1

// verifPool: arbitrary pool i (amounts in [0,1e30], any lock end); solvency comes from Validate, assumed by the caller.
func verifPool(i int, vestingType string) *types.VestingPool {
	id := string(rune('1' + i))
	return &types.VestingPool{
		Name:            vPoolNames[i],
		VestingType:     vestingType,
		LockStart:       verif_time_range("lockStart"+id, vVT0, vVT1),
		LockEnd:         verif_time_range("lockEnd"+id, vVT0, vLockEndMax),
		InitiallyLocked: verif_int_range("IL"+id, "0", vMaxAmt),
		Withdrawn:       verif_int_range("W"+id, "0", vMaxAmt),
		Sent:            verif_int_range("S"+id, "0", vMaxAmt),
		GenesisPool:     verif_bool("genesis" + id),
	}
}

// verifOwnerPools installs n arbitrary valid pools for the owner plus an arbitrary amount R >= 0 backing other owners' pools
// (Inv_v: module balance = sum of locked + R) and returns the stored object.
func verifOwnerPools(k Keeper, ctx sdk.Context, n int, vestingType string) types.AccountVestingPools {
	avp := types.AccountVestingPools{Owner: vOwner}
	for i := 0; i < n; i++ {
		avp.VestingPools = append(avp.VestingPools, verifPool(i, vestingType))
	}
	verif_assume(avp.Validate() == nil) // the code's own validity predicate: W,S >= 0, W+S <= IL, distinct names
	k.SetAccountVestingPools(ctx, avp)
	locked := sdk.ZeroInt()
	for _, p := range avp.VestingPools {
		locked = locked.Add(p.GetCurrentlyLocked())
	}
	R := verif_int_range("othersLocked", "0", vMaxAmt)
	W.bank.fund(verifModuleAddr(types.ModuleName), vDenom, locked.Add(R))
	return avp
}

func verifSumLocked(avp types.AccountVestingPools) math.Int {
	s := sdk.ZeroInt()
	for _, p := range avp.VestingPools {
		s = s.Add(p.GetCurrentlyLocked())
	}
	return s
}

func verifVestingType(k Keeper, ctx sdk.Context, name string) types.VestingType {
	vt := types.VestingType{
		Name:          name,
		LockupPeriod:  time.Duration(verif_i64_range("lockup", 0, 100000000000000000)),
		VestingPeriod: time.Duration(verif_i64_range("vestingPeriod", 0, 100000000000000000)),
		Free:          verif_dec_range("free", "0", "1000000000000000000"),
	}
	k.SetVestingType(ctx, vt)
	return vt
}

func verifSetParams(k Keeper, ctx sdk.Context) {
	if err := k.SetParams(ctx, types.Params{Denom: vDenom}); err != nil {
		verif_fail("SetParams rejected the default denom")
	}
}

func verifUnix(sec int64) time.Time { return time.Unix(sec, 0) }
