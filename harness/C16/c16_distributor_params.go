package v3

// C16 — the v2 -> v3 parameter migration of x/cfedistributor keeps the shares.
// Code under test: MigrateParams (Params.Validate of the legacy set, write under ParamsKey).

import (
	"github.com/chain4energy/c4e-chain/x/cfedistributor/types"
	sdk "github.com/cosmos/cosmos-sdk/types"
	paramtypes "github.com/cosmos/cosmos-sdk/x/params/types"
)

type verifDistSubspace struct{ p types.Params }

func (s verifDistSubspace) GetParamSet(ctx sdk.Context, ps paramtypes.ParamSet) {
	*(ps.(*types.Params)) = s.p
}

func verifDistAccount(tag string) types.Account {
	return types.Account{Id: verif_str_in("id"+tag, "acc_a", "acc_b", types.DistributorMainAccount, "", "c4e:dest"),
		Type: verif_str_in("ty"+tag, types.ModuleAccount, types.InternalAccount, types.Main, types.BaseAccount, "OTHER")}
}

// The legacy parameters are stored unchanged (same sub-distributors, accounts and shares) exactly when they validate;
// otherwise nothing is written.
func Verif_C16_distributor_params() {
	verifNewWorld()
	ctx := verifCtx(verif_time_range("now", 1700000000, 1900000000))
	key := &verifStoreKey{types.StoreKey}
	st := W.store(types.StoreKey)
	var p types.Params
	n := verif_choice("subs", 3)
	for i := 0; i < n; i++ {
		tag := string(rune('1' + i))
		sd := types.SubDistributor{Name: verif_str_in("name"+tag, "s1", "s2", ""),
			Sources: []*types.Account{}, Destinations: types.Destinations{BurnShare: verif_dec_range("burn"+tag, "-1", "2000000000000000000")}}
		src := verifDistAccount("src" + tag)
		sd.Sources = append(sd.Sources, &src)
		sd.Destinations.PrimaryShare = verifDistAccount("prim" + tag)
		if verif_choice("hasShare"+tag, 2) == 1 {
			sd.Destinations.Shares = append(sd.Destinations.Shares, &types.DestinationShare{Name: verif_str_in("sname"+tag, "sh1", ""),
				Share: verif_dec_range("share"+tag, "-1", "2000000000000000000"), Destination: verifDistAccount("dst" + tag)})
		}
		p.SubDistributors = append(p.SubDistributors, sd)
	}
	snap := verif_deep_copy(p).(types.Params)
	err := MigrateParams(ctx, key, verifDistSubspace{p}, verifCodec{})
	if err != nil {
		verif_assert(snap.Validate() != nil && !st.Has(types.ParamsKey), "refused parameters are invalid and leave the store untouched")
		verif_reach("distributor params refused")
		return
	}
	var q types.Params
	verif_assert(verif_unblob(st.Get(types.ParamsKey), &q), "migrated parameters are stored in the new format")
	verif_assert(verif_deep_equal(q, snap), "migrated distributor parameters equal the legacy ones (same sub-distributors, accounts and shares)")
	verif_assert(q.Validate() == nil, "migrated distributor parameters validate")
	verif_reach("distributor params migrated")
}
