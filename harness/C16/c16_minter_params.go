package v3

// C16 — the v2 -> v3 parameter migration of x/cfeminter keeps the schedule.
// Code under test: MigrateParams (legacy MinterConfig.Validate, conversion of every LegacyMinter into a Minter with an Any config,
// Params.Validate of the result, write under ParamsKey).

import (
	"time"

	"github.com/chain4energy/c4e-chain/x/cfeminter/types"
	sdk "github.com/cosmos/cosmos-sdk/types"
	paramtypes "github.com/cosmos/cosmos-sdk/x/params/types"
)

type verifMinterSubspace struct{ p types.LegacyParams }

func (s verifMinterSubspace) GetParamSet(ctx sdk.Context, ps paramtypes.ParamSet) {
	*(ps.(*types.LegacyParams)) = s.p
}

func verifLegacyMinter(i int, last bool) *types.LegacyMinter {
	tag := string(rune('1' + i))
	m := &types.LegacyMinter{SequenceId: uint32(verif_i64_range("seq"+tag, 0, 5))}
	if !last || verif_choice("lastHasEnd", 2) == 1 {
		e := verif_time_range("end"+tag, 1600000000, 1900000000)
		m.EndTime = &e
	}
	switch verif_choice("kind"+tag, 4) {
	case 0:
		m.Type = types.NoMintingType
	case 1:
		m.Type = types.LinearMintingType
		m.LinearMinting = &types.LinearMinting{Amount: verif_int_range("A"+tag, "-5", "1e36")}
	case 2:
		m.Type = types.ExponentialStepMintingType
		m.ExponentialStepMinting = &types.ExponentialStepMinting{Amount: verif_int_range("A"+tag, "-5", "1e36"),
			AmountMultiplier: verif_dec_range("mult"+tag, "-1", "3000000000000000000"), StepDuration: time.Duration(verif_i64_range("step"+tag, -5, 4000000000000000000))}
	case 3:
		m.Type = verif_str_in("badType"+tag, "", "PERIODIC_REDUCTION_MINTER")
	}
	return m
}

// Whenever the migration succeeds, the stored parameters are valid and describe the same schedule: same denom and start,
// same periods in the same order with the same ids and end times, and each period's configuration is the legacy one.
// When it fails, nothing is written.
func Verif_C16_minter_params() {
	verifNewWorld()
	ctx := verifCtx(verif_time_range("now", 1700000000, 1900000000))
	key := &verifStoreKey{types.StoreKey}
	st := W.store(types.StoreKey)
	n := 1 + verif_choice("periods", 3)
	var lp types.LegacyParams
	lp.MintDenom = verif_str_in("denom", "uc4e", "", "1x")
	lp.MinterConfig.StartTime = verif_time_range("start", 1600000000, 1900000000)
	for i := 0; i < n; i++ {
		lp.MinterConfig.Minters = append(lp.MinterConfig.Minters, verifLegacyMinter(i, i == n-1))
	}
	// what the legacy configuration says, by sequence id (the migration may reorder the slice while validating)
	type per struct {
		id   uint32
		end  *time.Time
		kind string
		lin  types.LinearMinting
		exp  types.ExponentialStepMinting
	}
	var want []per
	for _, m := range lp.MinterConfig.Minters {
		w := per{id: m.SequenceId, kind: m.Type}
		if m.EndTime != nil {
			e := *m.EndTime
			w.end = &e
		}
		if m.LinearMinting != nil {
			w.lin = *m.LinearMinting
		}
		if m.ExponentialStepMinting != nil {
			w.exp = *m.ExponentialStepMinting
		}
		want = append(want, w)
	}
	err := MigrateParams(ctx, key, verifMinterSubspace{lp}, verifCodec{})
	if err != nil {
		verif_assert(!st.Has(types.ParamsKey), "a failed parameter migration writes nothing")
		verif_reach("minter params refused")
		return
	}
	var np types.Params
	verif_assert(verif_unblob(st.Get(types.ParamsKey), &np), "migrated parameters are stored in the new format")
	verif_assert(np.Validate() == nil, "migrated minter parameters validate")
	verif_assert(np.MintDenom == lp.MintDenom && np.StartTime.Equal(lp.MinterConfig.StartTime), "denom and start time are kept")
	verif_assert(len(np.Minters) == n, "the number of periods is kept")
	for _, w := range want {
		found := 0
		for _, m := range np.Minters {
			if m.SequenceId != w.id {
				continue
			}
			found++
			verif_assert((m.EndTime == nil) == (w.end == nil) && (m.EndTime == nil || m.EndTime.Equal(*w.end)), "the end time of every period is kept")
			cfg, cerr := m.GetMinterConfig()
			verif_assert(cerr == nil, "the migrated configuration unpacks")
			switch w.kind {
			case types.NoMintingType:
				_, ok := cfg.(*types.NoMinting)
				verif_assert(ok, "a no-minting period stays a no-minting period")
			case types.LinearMintingType:
				c, ok := cfg.(*types.LinearMinting)
				verif_assert(ok && c.Amount.Equal(w.lin.Amount), "a linear period keeps its amount")
			case types.ExponentialStepMintingType:
				c, ok := cfg.(*types.ExponentialStepMinting)
				verif_assert(ok && c.Amount.Equal(w.exp.Amount) && c.AmountMultiplier.Equal(w.exp.AmountMultiplier) && c.StepDuration == w.exp.StepDuration, "an exponential period keeps amount, multiplier and step")
			default:
				verif_fail("a period of unknown legacy type was migrated")
			}
		}
		verif_assert(found == 1, "every legacy period appears exactly once")
	}
	verif_reach("minter params migrated")
}
