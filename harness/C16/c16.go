package v120

// C16 — the v1.2.0 upgrade preserves locked value.
// Code under test: ModifyVestingPoolsState, modifyAndAddVestingTypes, modifyAndAddVestingPools, splitVestingPool,
// UpdateVestingAccountTraces, ModifyVestingAccountsState / upgradeVestingAccounnt.

import (
	cfevestingkeeper "github.com/chain4energy/c4e-chain/x/cfevesting/keeper"
	cfevestingtypes "github.com/chain4energy/c4e-chain/x/cfevesting/types"
	sdk "github.com/cosmos/cosmos-sdk/types"
	authkeeper "github.com/cosmos/cosmos-sdk/x/auth/keeper"
	authtypes "github.com/cosmos/cosmos-sdk/x/auth/types"
	vestingtypes "github.com/cosmos/cosmos-sdk/x/auth/vesting/types"
	bankkeeper "github.com/cosmos/cosmos-sdk/x/bank/keeper"
	paramsKeeper "github.com/cosmos/cosmos-sdk/x/params/keeper"
	paramtypes "github.com/cosmos/cosmos-sdk/x/params/types"
)

type verifAppKeepers struct {
	vk *cfevestingkeeper.Keeper
	ak *authkeeper.AccountKeeper
}

func (a verifAppKeepers) GetAccountKeeper() *authkeeper.AccountKeeper      { return a.ak }
func (a verifAppKeepers) GetBankKeeper() *bankkeeper.Keeper                { return nil }
func (a verifAppKeepers) GetParamKeeper() *paramsKeeper.Keeper             { return nil }
func (a verifAppKeepers) GetC4eVestingKeeper() *cfevestingkeeper.Keeper    { return a.vk }

//verif:model (github.com/cosmos/cosmos-sdk/x/auth/keeper.AccountKeeper).GetAccount
func model_ak_GetAccount(ak authkeeper.AccountKeeper, ctx sdk.Context, addr sdk.AccAddress) authtypes.AccountI {
	return W.auth.GetAccount(ctx, addr)
}

//verif:model (github.com/cosmos/cosmos-sdk/x/auth/keeper.AccountKeeper).SetAccount
func model_ak_SetAccount(ak authkeeper.AccountKeeper, ctx sdk.Context, acc authtypes.AccountI) {
	W.auth.SetAccount(ctx, acc)
}

func verifUpgradeKeepers() verifAppKeepers {
	verifNewWorld()
	W.auth.addPerm(cfevestingtypes.ModuleName)
	vk := cfevestingkeeper.NewKeeper(verifCodec{}, &verifStoreKey{cfevestingtypes.StoreKey}, &verifStoreKey{cfevestingtypes.MemStoreKey}, paramtypes.Subspace{}, W.bank, nil, W.auth, nil, nil, "c4e:gov")
	return verifAppKeepers{vk: vk, ak: &authkeeper.AccountKeeper{}}
}

func verifOldPool(tag string) *cfevestingtypes.VestingPool {
	return &cfevestingtypes.VestingPool{
		Name:        verif_str_in("poolName"+tag, oldValidatorPoolName, oldAdvisorsPoolName, "Other pool"),
		VestingType: verif_str_in("poolType"+tag, oldValidatorTypeName, "Advisors"),
		LockStart:   verif_time_range("lockStart"+tag, 1600000000, 1700000000), LockEnd: verif_time_range("lockEnd"+tag, 1600000000, 1900000000),
		InitiallyLocked: verif_int_range("IL"+tag, "0", "1e30"), Withdrawn: verif_int_range("W"+tag, "0", "1e30"), Sent: verif_int_range("S"+tag, "0", "1e30"),
		GenesisPool: verif_bool("genesis" + tag)}
}

func verifLocked(list cfevestingtypes.AccountVestingPoolsList) sdk.Int {
	s := sdk.ZeroInt()
	for _, a := range list {
		for _, p := range a.VestingPools {
			s = s.Add(p.GetCurrentlyLocked())
		}
	}
	return s
}

// Pools: total locked is unchanged, histories are unchanged, solvency holds, and the split is applied completely or not at all.
func Verif_C16_pools_split() {
	ak := verifUpgradeKeepers()
	k := ak.vk
	ctx := verifCtx(verif_time_range("now", 1700000000, 1900000000))
	_ = k.SetParams(ctx, cfevestingtypes.Params{Denom: "uc4e"})
	if verif_choice("hasOldType", 2) == 1 {
		k.SetVestingType(ctx, cfevestingtypes.VestingType{Name: oldValidatorTypeName, Free: verif_dec_range("free", "0", "1000000000000000000")})
	}
	k.SetVestingType(ctx, cfevestingtypes.VestingType{Name: "Advisors", Free: sdk.ZeroDec()})
	npools := verif_choice("npools", 3)
	if verif_choice("ownerPresent", 2) == 1 {
		avp := cfevestingtypes.AccountVestingPools{Owner: ValidatorsVestingPoolOwner}
		for i := 0; i < npools; i++ {
			avp.VestingPools = append(avp.VestingPools, verifOldPool(string(rune('a'+i))))
		}
		verif_assume(avp.Validate() == nil)
		k.SetAccountVestingPools(ctx, avp)
	}
	// another owner whose pool uses the type that the upgrade renames
	other := cfevestingtypes.AccountVestingPools{Owner: "c4e:other", VestingPools: []*cfevestingtypes.VestingPool{verifOldPool("z")}}
	verif_assume(other.Validate() == nil)
	k.SetAccountVestingPools(ctx, other)
	before := k.GetAllAccountVestingPools(ctx)
	snapshot := verif_deep_copy(before).(cfevestingtypes.AccountVestingPoolsList)
	typesBefore := verif_deep_copy(k.GetAllVestingTypes(ctx)).(cfevestingtypes.VestingTypes)
	lockedBefore := verifLocked(before)

	err := ModifyVestingPoolsState(ctx, ak)
	verif_assert(err == nil, "the pool migration does not fail for any pre-upgrade state")
	after := k.GetAllAccountVestingPools(ctx)
	verif_assert(verifLocked(after).Equal(lockedBefore), "total locked across all pools is unchanged")
	newPools := 0
	for _, a := range after {
		for _, p := range a.VestingPools {
			verif_assert(!p.Withdrawn.IsNegative() && !p.Sent.IsNegative() && p.Withdrawn.Add(p.Sent).LTE(p.InitiallyLocked), "pool solvency holds after the upgrade")
			if p.Name == vcRoundPoolName || p.Name == earlyBirdRoundPoolName || p.Name == publicRoundPoolName || p.Name == strategicReserveShortTermRoundPoolName {
				newPools++
			}
		}
	}
	// histories of pre-existing pools
	for _, a := range snapshot {
		for i, p := range a.VestingPools {
			for _, a2 := range after {
				if a2.Owner == a.Owner {
					verif_assert(len(a2.VestingPools) >= len(a.VestingPools), "no pre-existing pool disappears")
					if i < len(a2.VestingPools) {
						verif_assert(a2.VestingPools[i].Sent.Equal(p.Sent) && a2.VestingPools[i].Withdrawn.Equal(p.Withdrawn), "sent / withdrawn history of every pre-existing pool is unchanged")
					}
				}
			}
		}
	}
	// all or nothing
	if newPools == 0 {
		verif_assert(verif_deep_equal(snapshot, after), "when the split is not applied the pools are untouched")
		verif_assert(verif_deep_equal(typesBefore, k.GetAllVestingTypes(ctx)), "when the split is not applied the vesting types are untouched")
		verif_reach("split not applied")
	} else {
		verif_assert(newPools == 4, "the split creates all four pools or none")
		_, errOld := k.GetVestingType(ctx, oldValidatorTypeName)
		_, errNew := k.GetVestingType(ctx, validatorRoundTypeName)
		verif_assert(errOld != nil && errNew == nil, "the validators type is renamed together with the split")
		verif_reach("split applied")
	}
}

// Vesting accounts whose schedule is shifted keep their amounts; other accounts are untouched.
func Verif_C16_accounts_shift() {
	ak := verifUpgradeKeepers()
	ctx := verifCtx(verif_time_range("now", 1700000000, 1900000000))
	addr, _ := sdk.AccAddressFromBech32(Account1)
	kind := verif_choice("kind", 3)
	ov := verif_int_range("OV", "1", "1e30")
	switch kind {
	case 1:
		W.auth.SetAccount(ctx, W.auth.NewAccountWithAddress(ctx, addr))
	case 2:
		base := W.auth.NewAccountWithAddress(ctx, addr).(*authtypes.BaseAccount)
		cva := vestingtypes.NewContinuousVestingAccountRaw(vestingtypes.NewBaseVestingAccount(base, sdk.NewCoins(sdk.NewCoin("uc4e", ov)), verif_i64_range("end", 1600000000, 1900000000)), verif_i64_range("start", 1600000000, 1900000000))
		cva.DelegatedVesting = sdk.NewCoins(sdk.NewCoin("uc4e", verif_int_range("DV", "1", "1e30")))
		W.auth.SetAccount(ctx, cva)
	}
	before := verif_deep_copy(W.auth.GetAccount(ctx, addr))
	err := ModifyVestingAccountsState(ctx, ak)
	verif_assert(err == nil, "the account migration does not fail")
	after := W.auth.GetAccount(ctx, addr)
	if kind != 2 {
		verif_assert(verif_deep_equal(before, after), "absent and non-vesting accounts are untouched")
	} else {
		b := before.(*vestingtypes.ContinuousVestingAccount)
		a, ok := after.(*vestingtypes.ContinuousVestingAccount)
		verif_assert(ok, "the account stays a continuous vesting account")
		if ok {
			verif_assert(verif_deep_equal(b.OriginalVesting, a.OriginalVesting) && verif_deep_equal(b.DelegatedVesting, a.DelegatedVesting) && verif_deep_equal(b.DelegatedFree, a.DelegatedFree), "shifted accounts keep their amounts")
			verif_assert(verif_deep_equal(b.BaseVestingAccount.BaseAccount, a.BaseVestingAccount.BaseAccount), "address, key, number and sequence are unchanged")
		}
	}
	verif_reach("accounts checked")
}

// Trace update: only lineage flags change, nothing is lost.
func Verif_C16_traces() {
	ak := verifUpgradeKeepers()
	k := ak.vk
	ctx := verifCtx(verif_time_range("now", 1700000000, 1900000000))
	addrs := []string{verif_str_in("addr1", "c4e1z5h0squtynr8rhwl0mzqdcd0wgmfyvpqmx3y2r", "c4e13e303u43k7mng4927axuhve0plgsyxc4xky63k", "c4e:someone"), "c4e:else"}
	for i, a := range addrs {
		k.AppendVestingAccountTrace(ctx, cfevestingtypes.VestingAccountTrace{Address: a, Genesis: verif_bool("g" + string(rune('1'+i))), FromGenesisPool: verif_bool("p" + string(rune('1'+i)))})
	}
	before := verif_deep_copy(k.GetAllVestingAccountTrace(ctx)).([]cfevestingtypes.VestingAccountTrace)
	UpdateVestingAccountTraces(ctx, ak)
	after := k.GetAllVestingAccountTrace(ctx)
	verif_assert(len(after) == len(before) && k.GetVestingAccountTraceCount(ctx) == 2, "no trace is lost or added")
	for i := range before {
		if i < len(after) {
			verif_assert(after[i].Address == before[i].Address && after[i].Id == before[i].Id, "trace identity is unchanged")
			verif_assert((!before[i].Genesis || after[i].Genesis) && (!before[i].FromGenesisPool || after[i].FromGenesisPool) && after[i].FromGenesisAccount == before[i].FromGenesisAccount, "lineage flags are only ever added")
		}
	}
	verif_reach("traces checked")
}
