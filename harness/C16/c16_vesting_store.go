package v3

// C16 — the v2 -> v3 store migration of x/cfevesting moves every pool field for field and keeps every trace.
// Code under test: MigrateStore, migrateVestingPools, getAllOldAccountVestingPoolsAndDelete, setNewAccountVestingPools,
// migrateVestingAccountTrace and its helpers, MigrateParams.

import (
	"encoding/binary"

	"cosmossdk.io/math"
	v2 "github.com/chain4energy/c4e-chain/x/cfevesting/migrations/v2"
	"github.com/chain4energy/c4e-chain/x/cfevesting/types"
	sdk "github.com/cosmos/cosmos-sdk/types"
	paramtypes "github.com/cosmos/cosmos-sdk/x/params/types"
)

func verifV2Pool(tag string) *v2.VestingPool {
	return &v2.VestingPool{
		Name:        verif_str_in("name"+tag, "p1", "p2", "Validators pool"),
		VestingType: verif_str_in("type"+tag, "t1", "t2"),
		LockStart:   verif_time_range("ls"+tag, 1600000000, 1700000000), LockEnd: verif_time_range("le"+tag, 1600000000, 1900000000),
		InitiallyLocked: verif_int_range("IL"+tag, "0", "1e30"), Withdrawn: verif_int_range("W"+tag, "0", "1e30"), Sent: verif_int_range("S"+tag, "0", "1e30")}
}

func verifV2Locked(l []v2.AccountVestingPools) math.Int {
	s := sdk.ZeroInt()
	for _, a := range l {
		for _, p := range a.VestingPools {
			s = s.Add(p.InitiallyLocked.Sub(p.Sent).Sub(p.Withdrawn))
		}
	}
	return s
}

// Pools: every owner and every pool is carried over field for field, nothing is left under the old layout twice,
// the total locked is unchanged, and no pool becomes a genesis pool.
func Verif_C16_vesting_store_pools() {
	verifNewWorld()
	ctx := verifCtx(verif_time_range("now", 1700000000, 1900000000))
	key := &verifStoreKey{types.StoreKey}
	st := W.store(types.StoreKey)
	owners := []string{"c4e:ownerA", "c4e:ownerB", "c4e:ownerC"}
	nown := verif_choice("owners", 4)
	var old []v2.AccountVestingPools
	for i := 0; i < nown; i++ {
		a := v2.AccountVestingPools{Address: owners[i]}
		np := verif_choice("pools"+owners[i], 3)
		for j := 0; j < np; j++ {
			a.VestingPools = append(a.VestingPools, verifV2Pool(string(rune('a'+i))+string(rune('0'+j))))
		}
		old = append(old, a)
		st.Set(append([]byte{0x02}, []byte(a.Address)...), verif_blob(&a))
	}
	// unrelated entries of the module that must survive: a vesting type and the params
	st.Set(append([]byte{0x01}, []byte("t1")...), verif_blob(&types.VestingType{Name: "t1"}))
	before := verifV2Locked(old)

	err := MigrateStore(ctx, key, verifCodec{})
	verif_assert(err == nil, "the store migration succeeds on every well-formed v2 store")

	var got types.AccountVestingPoolsList
	it := st.Iterator(types.AccountVestingPoolsKeyPrefix, []byte{types.AccountVestingPoolsKeyPrefix[0] + 1})
	for ; it.Valid(); it.Next() {
		var a types.AccountVestingPools
		verif_assert(verif_unblob(it.Value(), &a), "every entry under the pools prefix is in the new format")
		verif_assert(verif_bytes_str(it.Key()) == verif_bytes_str(append([]byte{}, types.AccountVestingPoolsKeyPrefix...))+a.Owner, "every migrated entry is keyed by its owner")
		got = append(got, a)
	}
	verif_assert(len(got) == nown, "every owner is migrated exactly once")
	after := sdk.ZeroInt()
	for i := 0; i < nown && i < len(got); i++ {
		o, n := old[i], got[i]
		verif_assert(n.Owner == o.Address && len(n.VestingPools) == len(o.VestingPools), "owner and number of pools are kept")
		for j := range o.VestingPools {
			if j >= len(n.VestingPools) {
				break
			}
			p, q := o.VestingPools[j], n.VestingPools[j]
			verif_assert(q.Name == p.Name && q.VestingType == p.VestingType && q.LockStart.Equal(p.LockStart) && q.LockEnd.Equal(p.LockEnd), "name, type and lock window are kept")
			verif_assert(q.InitiallyLocked.Equal(p.InitiallyLocked) && q.Withdrawn.Equal(p.Withdrawn) && q.Sent.Equal(p.Sent), "initially locked, withdrawn and sent are kept")
			verif_assert(!q.GenesisPool, "a migrated pool is not a genesis pool")
			after = after.Add(q.GetCurrentlyLocked())
		}
	}
	verif_assert(after.Equal(before), "the total locked across all pools is unchanged by the store migration")
	verif_assert(st.Has(append([]byte{0x01}, []byte("t1")...)), "vesting types are left in place")
	verif_reach("pools migrated")
}

// Traces: the counter is carried over and every old trace is reachable by its address with its id and all lineage flags off.
func Verif_C16_vesting_store_traces() {
	verifNewWorld()
	ctx := verifCtx(verif_time_range("now", 1700000000, 1900000000))
	key := &verifStoreKey{types.StoreKey}
	st := W.store(types.StoreKey)
	addrs := []string{"c4e:accA", "c4e:accB", "c4e:accC"}
	n := verif_choice("traces", 4)
	hasCount := verif_choice("hasCount", 2) == 1
	count := uint64(verif_i64_range("count", 0, 1000000))
	ids := make([]uint64, 3)
	for i := 0; i < n; i++ {
		ids[i] = uint64(verif_i64_range("id"+addrs[i], 0, 1000000))
		idb := make([]byte, 8)
		binary.BigEndian.PutUint64(idb, uint64(i))
		st.Set(append(types.KeyPrefix(v2.VestingAccountKey), idb...), verif_blob(&v2.VestingAccount{Id: ids[i], Address: addrs[i]}))
	}
	if hasCount {
		bz := make([]byte, 8)
		binary.BigEndian.PutUint64(bz, count)
		st.Set(types.KeyPrefix(v2.VestingAccountCountKey), bz)
	}
	err := MigrateStore(ctx, key, verifCodec{})
	verif_assert(err == nil, "the store migration succeeds on every well-formed v2 store")
	for i := 0; i < n; i++ {
		bz := st.Get(append(types.KeyPrefix(types.VestingAccountTraceKey), []byte(addrs[i])...))
		verif_assert(bz != nil, "every old trace is reachable by its address")
		if bz == nil {
			continue
		}
		var tr types.VestingAccountTrace
		verif_assert(verif_unblob(bz, &tr), "the migrated trace is in the new format")
		verif_assert(tr.Id == ids[i] && tr.Address == addrs[i], "id and address of the trace are kept")
		verif_assert(!tr.Genesis && !tr.FromGenesisPool && !tr.FromGenesisAccount, "migrated traces carry no genesis lineage")
	}
	cb := st.Get(types.KeyPrefix(types.VestingAccountTraceCountKey))
	verif_assert(cb != nil && len(cb) == 8, "the new trace counter exists")
	if cb != nil {
		want := uint64(0)
		if hasCount {
			want = count
		}
		verif_assert(binary.BigEndian.Uint64(cb) == want, "the trace counter is carried over")
	}
	verif_assert(!st.Has(types.KeyPrefix(v2.VestingAccountCountKey)), "the old counter is removed")
	verif_reach("traces migrated")
}

type verifVestingSubspace struct{ p types.Params }

func (s verifVestingSubspace) GetParamSet(ctx sdk.Context, ps paramtypes.ParamSet) {
	*(ps.(*types.Params)) = s.p
}

// Params: the legacy parameter set is stored unchanged when it validates, and nothing is written when it does not.
func Verif_C16_vesting_params() {
	verifNewWorld()
	ctx := verifCtx(verif_time_range("now", 1700000000, 1900000000))
	key := &verifStoreKey{types.StoreKey}
	st := W.store(types.StoreKey)
	p := types.Params{Denom: verif_str_in("denom", "uc4e", "", "1x", "ibc/27394FB092D2ECCD56123C74F36E4C1F926001CEADA9CA97EA622B25F41E5EB2")}
	err := MigrateParams(ctx, key, verifVestingSubspace{p}, verifCodec{})
	if err != nil {
		verif_assert(p.Validate() != nil && !st.Has(types.ParamsKey), "a refused parameter set is invalid and leaves the store untouched")
		verif_reach("params refused")
		return
	}
	var q types.Params
	verif_assert(verif_unblob(st.Get(types.ParamsKey), &q) && q.Denom == p.Denom && q.Validate() == nil, "migrated parameters are valid and equal to the legacy ones")
	verif_reach("params migrated")
}
