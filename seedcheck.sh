#!/bin/bash
# seedcheck.sh <ID> <worktree> <demo-test-file (relative)> <demo -run regex> <demo pkg> <test pkgs...>
# Confirms a seeded change: builds, existing tests of the packages give the same results with and without it,
# demo fails with it and passes without. Prints a JSON summary.
set -u
export GOFLAGS=-mod=mod GOPROXY=off GOSUMDB=off GOTOOLCHAIN=local
ID=$1; WT=$2; DEMOFILE=$3; RUN=$4; DEMOPKG=$5; shift 5; PKGS="$@"
cd $WT || exit 2
PATCH=/tmp/seed_$ID/patch.diff
git checkout -q -- . ; git apply $PATCH || { echo "patch does not apply"; exit 2; }
go build ./... > /tmp/seed_$ID/build.log 2>&1; BUILD=$?
mv $DEMOFILE /tmp/seed_$ID/_demo_hold.go
go test -vet=off -count=1 -json $PKGS 2>/dev/null | python3 -c "
import sys,json
r={}
for l in sys.stdin:
    try: e=json.loads(l)
    except: continue
    if e.get('Test') and e.get('Action') in ('pass','fail'): r[e['Package']+'::'+e['Test']]=e['Action']
json.dump(r,open('/tmp/seed_$ID/tests_with.json','w'))"
git apply -R $PATCH
go test -vet=off -count=1 -json $PKGS 2>/dev/null | python3 -c "
import sys,json
r={}
for l in sys.stdin:
    try: e=json.loads(l)
    except: continue
    if e.get('Test') and e.get('Action') in ('pass','fail'): r[e['Package']+'::'+e['Test']]=e['Action']
json.dump(r,open('/tmp/seed_$ID/tests_without.json','w'))"
mv /tmp/seed_$ID/_demo_hold.go $DEMOFILE
go test -vet=off -count=1 -run "$RUN" $DEMOPKG > /tmp/seed_$ID/demo_without.log 2>&1; DW=$?
git apply $PATCH
go test -vet=off -count=1 -run "$RUN" $DEMOPKG > /tmp/seed_$ID/demo_with.log 2>&1; DC=$?
python3 - <<PY
import json
a=json.load(open('/tmp/seed_$ID/tests_with.json')); b=json.load(open('/tmp/seed_$ID/tests_without.json'))
stable=set(json.load(open('/root/.vp/BASELINE.json'))['stable_pass'])
diff={k:(a.get(k),b.get(k)) for k in set(a)|set(b) if a.get(k)!=b.get(k)}
broken_stable=[k for k in a if a[k]=='fail' and k in stable]
print(json.dumps({"id":"$ID","build_ok":$BUILD==0,"tests_with":len(a),"tests_without":len(b),"result_differences":diff,"stable_tests_failing_with_change":broken_stable,"demo_fails_with_change":$DC!=0,"demo_passes_without":$DW==0},indent=1))
PY
