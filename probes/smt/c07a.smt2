; C07 probe: split exactness with time fraction s symbolic-constant 1/2, OV,U symbolic
(define-fun P () Int 1000000000000000000)
(define-fun H () Int 500000000000000000)
; round half even of nonneg n / P
(define-fun rhe ((n Int)) Int
  (let ((q (div n P)) (r (mod n P)))
    (ite (< r H) q (ite (> r H) (+ q 1) (ite (= (mod q 2) 0) q (+ q 1))))))
(declare-const OV Int)
(declare-const U Int)
(define-fun s () Int H) ; 0.5 scaled
(define-fun vested ((ov Int)) Int (rhe (* ov s)))
(define-fun vg ((ov Int)) Int (- ov (vested ov)))
(assert (and (>= OV 1) (<= OV 1000000000000000000000000000000)))
(assert (and (>= U 1) (<= U (vg OV))))
(define-fun qd () Int (div (* U OV P P) (vg OV)))     ; trunc(U*OV*1e36/VgC)  (Dec scaled 1e18)
(define-fun diffdec () Int (rhe qd))                   ; Dec scaled
(define-fun diff () Int (div diffdec P))
(define-fun ov1 () Int (- OV diff))
(define-fun unl1 () Int (- (vg OV) (vg ov1)))
(define-fun ov2 () Int (ite (< unl1 U) (- ov1 1) ov1))
(define-fun unl2 () Int (- (vg OV) (vg ov2)))
(assert (not (= unl2 U)))
(check-sat)
(get-value (OV U diff ov1 unl1 ov2 unl2))
