package main

// Harness API (verif_* functions intercepted by name), time intrinsics, context / blob / deep-equal support.

import (
	"strconv"
	"fmt"
	"go/token"
	"go/types"
	"math/big"
	"os"
	"strings"

	"golang.org/x/tools/go/ssa"
)

var verifAPI = map[string]intrinsicFn{}

func constStr(p *Path, v Value, what string) string {
	t, ok := v.(*Term)
	if !ok || !t.IsConst() || t.sort != SString {
		p.unsupported("%s must be a constant string", what)
	}
	return t.s
}

func constInt(p *Path, v Value, what string) int64 {
	t, ok := v.(*Term)
	if !ok || !t.IsConst() || t.sort != SInt {
		p.unsupported("%s must be a constant int", what)
	}
	return t.i.Int64()
}

func bigFromStr(p *Path, s string) *big.Int {
	if s == "" {
		return nil
	}
	// allow forms like 1e30
	if i := strings.IndexAny(s, "eE"); i > 0 {
		m, ok1 := new(big.Int).SetString(s[:i], 10)
		e, ok2 := new(big.Int).SetString(s[i+1:], 10)
		if ok1 && ok2 {
			return m.Mul(m, new(big.Int).Exp(big.NewInt(10), e, nil))
		}
	}
	v, ok := new(big.Int).SetString(s, 10)
	if !ok {
		p.unsupported("bad integer literal %q", s)
	}
	return v
}

func (p *Path) symRange(name string, lo, hi *big.Int) *Term {
	t := TSymRange(name, lo, hi)
	// if the symbol existed with other bounds the table keeps the first; assert the bounds anyway
	// raw (unfolded) bound constraints: the interval on the term would otherwise fold them to true
	if lo != nil {
		p.assume(build("<=", SBool, TInt(lo), t))
	}
	if hi != nil {
		p.assume(build("<=", SBool, t, TInt(hi)))
	}
	return t
}

func init() {
	api := func(name string, f intrinsicFn) { verifAPI[name] = f }

	api("verif_assume", func(p *Path, _ *frame, a []Value, pos token.Pos) Value {
		c := a[0].(*Term)
		if !c.IsConst() {
			p.eng.mu.Lock()
			p.eng.assumes[p.site(pos)] = true
			p.eng.mu.Unlock()
			if !p.feasible(c) {
				p.abort("infeasible", "assumption")
			}
		}
		p.assume(c)
		return nil
	})
	api("verif_assert", func(p *Path, _ *frame, a []Value, pos token.Pos) Value {
		p.assertTerm(a[0].(*Term), constStr(p, a[1], "assert label"))
		return nil
	})
	api("verif_reach", func(p *Path, _ *frame, a []Value, pos token.Pos) Value {
		label := constStr(p, a[0], "reach label")
		e := p.eng
		e.mu.Lock()
		n := e.reachSeen[p.harness+"/"+label]
		e.reachSeen[p.harness+"/"+label] = n + 1
		e.mu.Unlock()
		if n < 3 {
			r, m, _ := p.checkNeg(TTrue, true)
			if r == "sat" {
				e.mu.Lock()
				e.reaches = append(e.reaches, ReachRec{Harness: p.harness, Label: label, Model: modelStrings(m), Path: append([]int(nil), p.decisions...)})
				e.mu.Unlock()
			} else {
				e.mu.Lock()
				e.reachSeen[p.harness+"/"+label] = n // not confirmed
				e.mu.Unlock()
			}
		}
		return nil
	})
	api("verif_fail", func(p *Path, _ *frame, a []Value, pos token.Pos) Value {
		p.assertTerm(TFalse, constStr(p, a[0], "label"))
		return nil
	})
	api("verif_int", func(p *Path, _ *frame, a []Value, pos token.Pos) Value {
		return p.mkInt(TSym(constStr(p, a[0], "name"), SInt))
	})
	api("verif_int_range", func(p *Path, _ *frame, a []Value, pos token.Pos) Value {
		return p.mkInt(p.symRange(constStr(p, a[0], "name"), bigFromStr(p, constStr(p, a[1], "lo")), bigFromStr(p, constStr(p, a[2], "hi"))))
	})
	api("verif_int_nil", func(p *Path, _ *frame, a []Value, pos token.Pos) Value { return IntV{Nil: true} })
	api("verif_dec_nil", func(p *Path, _ *frame, a []Value, pos token.Pos) Value { return DecV{Nil: true} })
	api("verif_dec", func(p *Path, _ *frame, a []Value, pos token.Pos) Value {
		return p.mkDec(TSym(constStr(p, a[0], "name"), SInt))
	})
	// verif_dec_range(name, lo, hi): bounds are given as raw 10^18-scaled integers
	api("verif_dec_range", func(p *Path, _ *frame, a []Value, pos token.Pos) Value {
		return p.mkDec(p.symRange(constStr(p, a[0], "name"), bigFromStr(p, constStr(p, a[1], "lo")), bigFromStr(p, constStr(p, a[2], "hi"))))
	})
	api("verif_i64", func(p *Path, _ *frame, a []Value, pos token.Pos) Value {
		return p.symRange(constStr(p, a[0], "name"), minInt64, maxInt64)
	})
	api("verif_i64_range", func(p *Path, _ *frame, a []Value, pos token.Pos) Value {
		return p.symRange(constStr(p, a[0], "name"), big.NewInt(constInt(p, a[1], "lo")), big.NewInt(constInt(p, a[2], "hi")))
	})
	api("verif_bool", func(p *Path, _ *frame, a []Value, pos token.Pos) Value {
		return TSym(constStr(p, a[0], "name"), SBool)
	})
	api("verif_str", func(p *Path, _ *frame, a []Value, pos token.Pos) Value {
		return TSym(constStr(p, a[0], "name"), SString)
	})
	api("verif_str_in", func(p *Path, _ *frame, a []Value, pos token.Pos) Value {
		name := constStr(p, a[0], "name")
		var pool []string
		for _, x := range a[1].(SliceV).A {
			pool = append(pool, constStr(p, x, "pool element"))
		}
		if len(pool) == 1 {
			return TStr(pool[0])
		}
		t := TSym(name, SString)
		p.pools[name] = pool
		var alts []*Term
		for _, s := range pool {
			alts = append(alts, Eq(t, TStr(s)))
		}
		p.assume(Or(alts...))
		return t
	})
	api("verif_concrete_str", func(p *Path, _ *frame, a []Value, pos token.Pos) Value {
		return TStr(p.concretizeStr(a[0].(*Term), "verif_concrete_str"))
	})
	api("verif_concrete_int", func(p *Path, _ *frame, a []Value, pos token.Pos) Value {
		return TInt64(p.concretizeInt(a[0].(*Term), constInt(p, a[1], "lo"), constInt(p, a[2], "hi"), "verif_concrete_int"))
	})
	// verif_choice(name, n): concrete value in 0..n-1, forking
	api("verif_choice", func(p *Path, _ *frame, a []Value, pos token.Pos) Value {
		name := constStr(p, a[0], "name")
		n := constInt(p, a[1], "n")
		sel := p.symRange(name, bigZero, big.NewInt(n-1))
		conds := make([]*Term, n)
		for i := range conds {
			conds[i] = Eq(sel, TInt64(int64(i)))
		}
		if p.choiceSeen == nil {
			p.choiceSeen = map[string]bool{}
		}
		if !p.choiceSeen[name] {
			p.choiceSeen[name] = true
			return TInt64(int64(p.decideFree(conds)))
		}
		return TInt64(int64(p.decide(conds)))
	})
	// time: verif_time(name) arbitrary instant within [2000-01-01, 2200-01-01) at ns resolution
	api("verif_time", func(p *Path, _ *frame, a []Value, pos token.Pos) Value {
		lo := new(big.Int).Mul(big.NewInt(946684800), big.NewInt(1e9))
		hi := new(big.Int).Mul(big.NewInt(7258118400), big.NewInt(1e9))
		return TimeV{p.symRange(constStr(p, a[0], "name"), lo, hi)}
	})
	// verif_time_range(name, loUnixSec, hiUnixSec)
	api("verif_time_range", func(p *Path, _ *frame, a []Value, pos token.Pos) Value {
		lo := new(big.Int).Mul(big.NewInt(constInt(p, a[1], "lo")), big.NewInt(1e9))
		hi := new(big.Int).Mul(big.NewInt(constInt(p, a[2], "hi")), big.NewInt(1e9))
		return TimeV{p.symRange(constStr(p, a[0], "name"), lo, hi)}
	})
	// verif_time_unit(name, unitNs, loUnixSec, hiUnixSec): instant that is a multiple of unitNs
	api("verif_time_unit", func(p *Path, _ *frame, a []Value, pos token.Pos) Value {
		unit := constInt(p, a[1], "unit")
		lo := new(big.Int).Mul(big.NewInt(constInt(p, a[2], "lo")), big.NewInt(1e9))
		hi := new(big.Int).Mul(big.NewInt(constInt(p, a[3], "hi")), big.NewInt(1e9))
		lo.Div(lo, big.NewInt(unit))
		hi.Div(hi, big.NewInt(unit))
		k := p.symRange(constStr(p, a[0], "name"), lo, hi)
		return TimeV{Mul(TInt64(unit), k)}
	})
	api("verif_time_ns", func(p *Path, _ *frame, a []Value, pos token.Pos) Value {
		return a[0].(TimeV).NS
	})
	api("verif_knob", func(p *Path, _ *frame, a []Value, pos token.Pos) Value {
		name := constStr(p, a[0], "knob")
		v := constInt(p, a[1], "value")
		switch name {
		case "unroll":
			p.unroll = int(v)
		case "assert_timeout_ms":
			p.assertTO = int(v)
		default:
			p.knobs[name] = v
		}
		return nil
	})
	// verif_emit(name, value): conformance output. The value must be concrete; it is recorded in canonical text form so that the
	// same case file run natively can be compared line by line.
	api("verif_emit", func(p *Path, _ *frame, a []Value, pos token.Pos) Value {
		name := constStr(p, a[0], "emit name")
		e := p.eng
		e.mu.Lock()
		e.emits = append(e.emits, EmitRec{Name: name, Value: canonValue(a[1])})
		e.mu.Unlock()
		return nil
	})
	api("verif_log", func(p *Path, _ *frame, a []Value, pos token.Pos) Value {
		if p.eng.cfg.Verbose > 0 {
			var parts []string
			for _, x := range a {
				parts = append(parts, showValue(x, 6))
			}
			fmt.Fprintf(os.Stderr, "LOG[%s %v] %s\n", p.harness, p.decisions, strings.Join(parts, " "))
		}
		return nil
	})
	// context
	api("verif_ctx", func(p *Path, _ *frame, a []Value, pos token.Pos) Value { return &CtxObj{F: map[string]Value{}} })
	api("verif_ctx_get", func(p *Path, _ *frame, a []Value, pos token.Pos) Value {
		c := a[0].(*CtxObj)
		k := constStr(p, a[1], "ctx key")
		v, ok := c.F[k]
		if !ok {
			return Iface{}
		}
		return v
	})
	api("verif_ctx_with", func(p *Path, _ *frame, a []Value, pos token.Pos) Value {
		c := a[0].(*CtxObj)
		k := constStr(p, a[1], "ctx key")
		n := &CtxObj{F: map[string]Value{}}
		for kk, vv := range c.F {
			n.F[kk] = vv
		}
		n.F[k] = a[2]
		return n
	})
	// blobs
	api("verif_blob", func(p *Path, _ *frame, a []Value, pos token.Pos) Value {
		iv := a[0].(Iface)
		if iv.T == nil {
			p.panicNow(p.site(pos), "marshal of nil message", nil)
		}
		return BlobV{Msg: p.normalize(iv.V, iv.T, 0), Type: iv.T, ID: p.newID()}
	})
	api("verif_unblob", func(p *Path, _ *frame, a []Value, pos token.Pos) Value {
		iv := a[1].(Iface)
		dst, ok := iv.V.(*Value)
		if !ok || dst == nil {
			p.panicNow(p.site(pos), "unmarshal into nil", nil)
		}
		switch b := a[0].(type) {
		case BlobV:
			if !types.Identical(b.Type, iv.T) {
				return TFalse
			}
			src := b.Msg.(*Value)
			memo := map[*Value]*Value{}
			*dst = cloneValue(*src, memo)
			return TTrue
		case SliceV:
			if len(b.A) == 0 {
				// empty bytes decode to the zero message
				*dst = zero(deref(iv.T))
				return TTrue
			}
		}
		return TFalse
	})
	api("verif_is_blob", func(p *Path, _ *frame, a []Value, pos token.Pos) Value {
		_, ok := a[0].(BlobV)
		return TBool(ok)
	})
	api("verif_deep_equal", func(p *Path, _ *frame, a []Value, pos token.Pos) Value {
		return p.deepEqual(a[0], a[1], map[[2]*Value]bool{}, 0)
	})
	// verif_catch(f) reports whether f panicked
	api("verif_catch", func(p *Path, fr *frame, a []Value, pos token.Pos) (res Value) {
		res = TFalse
		defer func() {
			if r := recover(); r != nil {
				if pp, ok := r.(progPanic); ok {
					p.world["last_panic"] = TStr(pp.site + ": " + pp.msg)
					res = TTrue
					return
				}
				panic(r)
			}
		}()
		p.call(fr, a[0], nil, pos)
		return
	})
	api("verif_last_panic", func(p *Path, fr *frame, a []Value, pos token.Pos) Value {
		if v, ok := p.world["last_panic"]; ok {
			return v
		}
		return TStr("")
	})
	api("verif_bytes", func(p *Path, fr *frame, a []Value, pos token.Pos) Value {
		return BytesV{a[0].(*Term)}
	})
	api("verif_bytes_str", func(p *Path, fr *frame, a []Value, pos token.Pos) Value {
		if b, ok := a[0].(BlobV); ok {
			return TUF("blobstr", SString, TInt64(int64(b.ID)))
		}
		if sl, ok := a[0].(SliceV); ok && sl.A == nil {
			return TStr("")
		}
		return p.bytesToTerm(a[0])
	})
	// verif_uf_*: uninterpreted functions for modelling crypto / encodings
	api("verif_uf_str", func(p *Path, fr *frame, a []Value, pos token.Pos) Value {
		return p.ufCall(constStr(p, a[0], "uf name"), SString, a[1])
	})
	api("verif_uf_bool", func(p *Path, fr *frame, a []Value, pos token.Pos) Value {
		return p.ufCall(constStr(p, a[0], "uf name"), SBool, a[1])
	})
	api("verif_uf_int", func(p *Path, fr *frame, a []Value, pos token.Pos) Value {
		return p.ufCall(constStr(p, a[0], "uf name"), SInt, a[1])
	})
	api("verif_valid_denom", func(p *Path, fr *frame, a []Value, pos token.Pos) Value {
		s := a[0].(*Term)
		if s.IsConst() {
			return TBool(reDenom.MatchString(s.s))
		}
		if pool := p.poolOf(s); pool != nil {
			return TBool(reDenom.MatchString(p.concretizeStr(s, "denom")))
		}
		return TUF("valid_denom", SBool, s)
	})
	api("verif_str_drop", func(p *Path, fr *frame, a []Value, pos token.Pos) Value {
		s := a[0].(*Term)
		n := int(constInt(p, a[1], "n"))
		if n == 0 {
			return s
		}
		if s.IsConst() {
			if n > len(s.s) {
				p.unsupported("verif_str_drop beyond length")
			}
			return TStr(s.s[n:])
		}
		if s.op == "str.++" && s.args[0].IsConst() && len(s.args[0].s) >= n {
			rest := append([]*Term{TStr(s.args[0].s[n:])}, s.args[1:]...)
			return Concat(rest...)
		}
		p.unsupported("verif_str_drop on %v", s)
		return nil
	})
	api("verif_deep_copy", func(p *Path, fr *frame, a []Value, pos token.Pos) Value {
		return cloneValue(a[0], map[*Value]*Value{})
	})
	api("verif_finding", func(p *Path, fr *frame, a []Value, pos token.Pos) Value {
		p.tags = append(p.tags, constStr(p, a[0], "finding id"))
		return nil
	})
	api("verif_tier", func(p *Path, fr *frame, a []Value, pos token.Pos) Value {
		return TInt64(int64(p.eng.cfg.Tier))
	})
	api("verif_int_of", func(p *Path, fr *frame, a []Value, pos token.Pos) Value {
		return p.mkInt(a[0].(*Term))
	})
	api("verif_dec_raw", func(p *Path, fr *frame, a []Value, pos token.Pos) Value {
		// Dec from its raw 10^18-scaled math.Int representation
		return p.mkDec(p.intArg(a[0], pos, "verif_dec_raw"))
	})
	api("verif_dec_rawint", func(p *Path, fr *frame, a []Value, pos token.Pos) Value {
		return p.mkInt(p.decArg(a[0], pos, "verif_dec_rawint"))
	})
	api("verif_type_name", func(p *Path, fr *frame, a []Value, pos token.Pos) Value {
		iv := a[0].(Iface)
		if iv.T == nil {
			return TStr("<nil>")
		}
		return TStr(iv.T.String())
	})
}

func (p *Path) ufCall(name string, sort Sort, argv Value) *Term {
	var args []*Term
	for _, x := range argv.(SliceV).A {
		v := x
		if iv, ok := v.(Iface); ok {
			v = iv.V
		}
		switch v := v.(type) {
		case *Term:
			args = append(args, v)
		case IntV:
			args = append(args, v.V)
		case BytesV:
			args = append(args, v.S)
		case SliceV:
			args = append(args, p.bytesTerm(v))
		default:
			p.unsupported("uf argument %T", v)
		}
	}
	return TUF(name, sort, args...)
}

// normalize produces the deep copy a gogoproto Marshal/Unmarshal round trip would yield.
// v is a pointer to the message struct (type t = *Msg).
func (p *Path) normalize(v Value, t types.Type, depth int) Value {
	if depth > 40 {
		p.unsupported("normalize depth")
	}
	switch namedPath(t) {
	case tyInt:
		iv := v.(IntV)
		if iv.Nil {
			return p.mkInt(TInt64(0))
		}
		return iv
	case tyDec:
		dv := v.(DecV)
		if dv.Nil {
			return p.mkDec(TInt64(0))
		}
		return dv
	case tyTime:
		return v
	}
	switch u := t.Underlying().(type) {
	case *types.Pointer:
		ptr, ok := v.(*Value)
		if !ok {
			return v
		}
		if ptr == nil {
			return ptr
		}
		n := new(Value)
		*n = p.normalize(*ptr, u.Elem(), depth+1)
		return n
	case *types.Struct:
		st, ok := v.(Struct)
		if !ok {
			return v
		}
		c := make(Struct, len(st))
		for i := range st {
			f := u.Field(i)
			if strings.HasPrefix(f.Name(), "XXX_") {
				c[i] = zero(f.Type())
				continue
			}
			c[i] = p.normalize(st[i], f.Type(), depth+1)
		}
		return c
	case *types.Slice:
		switch sv := v.(type) {
		case SliceV:
			if len(sv.A) == 0 {
				return SliceV{}
			}
			c := make([]Value, len(sv.A))
			for i, x := range sv.A {
				c[i] = p.normalize(x, u.Elem(), depth+1)
			}
			return SliceV{c}
		}
		return v
	case *types.Interface:
		iv, ok := v.(Iface)
		if !ok || iv.T == nil {
			return v
		}
		return Iface{iv.T, p.normalize(iv.V, iv.T, depth+1)}
	case *types.Map:
		return v
	}
	return v
}

func (p *Path) deepEqual(a, b Value, seen map[[2]*Value]bool, depth int) *Term {
	if depth > 60 {
		p.unsupported("deepEqual depth")
	}
	switch x := a.(type) {
	case nil:
		return TBool(isNilValue(b))
	case *Term:
		if y, ok := b.(*Term); ok && x.sort == y.sort {
			return Eq(x, y)
		}
		return TFalse
	case IntV:
		y, ok := b.(IntV)
		if !ok || x.Nil != y.Nil {
			return TFalse
		}
		if x.Nil {
			return TTrue
		}
		return Eq(x.V, y.V)
	case DecV:
		y, ok := b.(DecV)
		if !ok || x.Nil != y.Nil {
			return TFalse
		}
		if x.Nil {
			return TTrue
		}
		return Eq(x.V, y.V)
	case TimeV:
		y, ok := b.(TimeV)
		if !ok {
			return TFalse
		}
		return Eq(x.NS, y.NS)
	case Struct:
		y, ok := b.(Struct)
		if !ok || len(x) != len(y) {
			return TFalse
		}
		r := TTrue
		for i := range x {
			r = And(r, p.deepEqual(x[i], y[i], seen, depth+1))
			if r == TFalse {
				return r
			}
		}
		return r
	case Array:
		y, ok := b.(Array)
		if !ok || len(x) != len(y) {
			return TFalse
		}
		r := TTrue
		for i := range x {
			r = And(r, p.deepEqual(x[i], y[i], seen, depth+1))
		}
		return r
	case SliceV:
		y, ok := b.(SliceV)
		if !ok {
			if by, ok := b.(BytesV); ok {
				return Eq(p.bytesTerm(x), by.S)
			}
			return TFalse
		}
		if (x.A == nil) != (y.A == nil) || len(x.A) != len(y.A) {
			return TFalse
		}
		r := TTrue
		for i := range x.A {
			r = And(r, p.deepEqual(x.A[i], y.A[i], seen, depth+1))
			if r == TFalse {
				return r
			}
		}
		return r
	case BytesV:
		switch y := b.(type) {
		case BytesV:
			return Eq(x.S, y.S)
		case SliceV:
			if y.A == nil {
				return TFalse
			}
			return Eq(x.S, p.bytesTerm(y))
		}
		return TFalse
	case BlobV:
		y, ok := b.(BlobV)
		if !ok || !types.Identical(x.Type, y.Type) {
			return TFalse
		}
		return p.deepEqual(x.Msg, y.Msg, seen, depth+1)
	case *Value:
		y, ok := b.(*Value)
		if !ok {
			return TFalse
		}
		if x == nil || y == nil {
			return TBool(x == nil && y == nil)
		}
		if x == y || seen[[2]*Value{x, y}] {
			return TTrue
		}
		seen[[2]*Value{x, y}] = true
		return p.deepEqual(*x, *y, seen, depth+1)
	case Iface:
		y, ok := b.(Iface)
		if !ok {
			return TFalse
		}
		if x.T == nil || y.T == nil {
			return TBool(x.T == nil && y.T == nil)
		}
		if _, isErr := x.V.(*ErrObj); isErr {
			_, isErr2 := y.V.(*ErrObj)
			return TBool(isErr2) // errors compare by nil-ness only
		}
		if !types.Identical(x.T, y.T) {
			return TFalse
		}
		return p.deepEqual(x.V, y.V, seen, depth+1)
	case *MapObj:
		y, ok := b.(*MapObj)
		if !ok {
			return TFalse
		}
		if x == nil || y == nil {
			return TBool(x == nil && y == nil)
		}
		if len(x.Keys) != len(y.Keys) {
			return TFalse
		}
		r := TTrue
		for i := range x.Keys {
			// order-insensitive: find matching key
			any := TFalse
			for j := range y.Keys {
				any = Or(any, And(p.deepEqual(x.Keys[i], y.Keys[j], seen, depth+1), p.deepEqual(x.Vals[i], y.Vals[j], seen, depth+1)))
			}
			r = And(r, any)
		}
		return r
	case *ErrObj:
		y, ok := b.(*ErrObj)
		return TBool(ok && (x == nil) == (y == nil))
	case *CtxObj:
		return TTrue
	case FloatV:
		return TTrue
	case *ssa.Function:
		y, ok := b.(*ssa.Function)
		return TBool(ok && x == y)
	case *ClosureV:
		y, ok := b.(*ClosureV)
		return TBool(ok && x.Fn == y.Fn)
	case Tuple:
		y, ok := b.(Tuple)
		if !ok || len(x) != len(y) {
			return TFalse
		}
		r := TTrue
		for i := range x {
			r = And(r, p.deepEqual(x[i], y[i], seen, depth+1))
		}
		return r
	}
	p.unsupported("deepEqual on %T", a)
	return nil
}

// ---------------------------------------------------------------- time intrinsics

var (
	nsPerSec = big.NewInt(1000000000)
	tNsSec   = TInt(nsPerSec)
	tNsMs    = TInt64(1000000)
)

func satDuration(d *Term) *Term {
	if d.lo != nil && d.hi != nil && d.lo.Cmp(minInt64) >= 0 && d.hi.Cmp(maxInt64) <= 0 {
		return d
	}
	return Ite(Gt(d, TInt(maxInt64)), TInt(maxInt64), Ite(Lt(d, TInt(minInt64)), TInt(minInt64), d))
}

// floorDiv for possibly negative numerators and positive constant divisor
func floorDivC(a *Term, c *Term) *Term { return Div(a, c) }

func init() {
	tm := func(v Value) *Term { return v.(TimeV).NS }
	reg("(time.Time).Before", func(p *Path, _ *frame, a []Value, _ token.Pos) Value { return Lt(tm(a[0]), tm(a[1])) })
	reg("(time.Time).After", func(p *Path, _ *frame, a []Value, _ token.Pos) Value { return Gt(tm(a[0]), tm(a[1])) })
	reg("(time.Time).Equal", func(p *Path, _ *frame, a []Value, _ token.Pos) Value { return Eq(tm(a[0]), tm(a[1])) })
	reg("(time.Time).Compare", func(p *Path, _ *frame, a []Value, _ token.Pos) Value {
		return Ite(Lt(tm(a[0]), tm(a[1])), TInt64(-1), Ite(Gt(tm(a[0]), tm(a[1])), TInt64(1), TInt64(0)))
	})
	reg("(time.Time).IsZero", func(p *Path, _ *frame, a []Value, _ token.Pos) Value { return Eq(tm(a[0]), zeroTimeNS) })
	reg("(time.Time).Sub", func(p *Path, _ *frame, a []Value, _ token.Pos) Value {
		d := Sub(tm(a[0]), tm(a[1]))
		if p.proves(And(Ge(d, TInt(minInt64)), Le(d, TInt(maxInt64)))) {
			return d
		}
		return satDuration(d)
	})
	reg("(time.Time).Add", func(p *Path, _ *frame, a []Value, _ token.Pos) Value { return TimeV{Add(tm(a[0]), a[1].(*Term))} })
	reg("(time.Time).Unix", func(p *Path, _ *frame, a []Value, _ token.Pos) Value { return floorDivC(tm(a[0]), tNsSec) })
	reg("(time.Time).UnixMilli", func(p *Path, _ *frame, a []Value, _ token.Pos) Value { return floorDivC(tm(a[0]), tNsMs) })
	reg("(time.Time).UnixNano", func(p *Path, _ *frame, a []Value, _ token.Pos) Value { return p.wrap(tm(a[0]), types.Typ[types.Int64]) })
	reg("(time.Time).Nanosecond", func(p *Path, _ *frame, a []Value, _ token.Pos) Value { return Mod(tm(a[0]), tNsSec) })
	idT := func(p *Path, _ *frame, a []Value, _ token.Pos) Value { return a[0] }
	regs([]string{"(time.Time).UTC", "(time.Time).Local", "(time.Time).Round", "(time.Time).In"}, idT)
	reg("(time.Time).Truncate", func(p *Path, _ *frame, a []Value, _ token.Pos) Value {
		d := a[1].(*Term)
		if d.IsConst() && d.i.Sign() <= 0 {
			return a[0]
		}
		if d.IsConst() {
			// relative to the zero time; 1s/1ms/... divide the zero-time offset exactly
			return TimeV{Sub(tm(a[0]), Mod(Sub(tm(a[0]), zeroTimeNS), d))}
		}
		p.unsupported("Time.Truncate symbolic duration")
		return nil
	})
	regs([]string{"(time.Time).String", "(time.Time).Format"}, func(p *Path, _ *frame, a []Value, _ token.Pos) Value {
		return p.ufApp("time_str", SString, true, tm(a[0]))
	})
	reg("time.Unix", func(p *Path, _ *frame, a []Value, _ token.Pos) Value {
		return TimeV{Add(Mul(a[0].(*Term), tNsSec), a[1].(*Term))}
	})
	reg("time.UnixMilli", func(p *Path, _ *frame, a []Value, _ token.Pos) Value {
		return TimeV{Mul(a[0].(*Term), tNsMs)}
	})
	reg("time.Now", func(p *Path, _ *frame, a []Value, _ token.Pos) Value {
		lo := new(big.Int).Mul(big.NewInt(946684800), nsPerSec)
		hi := new(big.Int).Mul(big.NewInt(7258118400), nsPerSec)
		return TimeV{p.symRange(fmt.Sprintf("now!%d", p.nextFresh()), lo, hi)}
	})
	reg("time.Since", func(p *Path, _ *frame, a []Value, _ token.Pos) Value {
		return p.symRange(fmt.Sprintf("since!%d", p.nextFresh()), bigZero, maxInt64)
	})
	reg("time.Date", func(p *Path, _ *frame, a []Value, _ token.Pos) Value {
		for i := 0; i < 7; i++ {
			if t, ok := a[i].(*Term); !ok || !t.IsConst() {
				p.unsupported("time.Date with symbolic component")
			}
		}
		y, mo, d := a[0].(*Term).i.Int64(), a[1].(*Term).i.Int64(), a[2].(*Term).i.Int64()
		h, mi, s, ns := a[3].(*Term).i.Int64(), a[4].(*Term).i.Int64(), a[5].(*Term).i.Int64(), a[6].(*Term).i.Int64()
		days := daysFromCivil(y, mo, d)
		sec := days*86400 + h*3600 + mi*60 + s
		return TimeV{TInt(new(big.Int).Add(new(big.Int).Mul(big.NewInt(sec), nsPerSec), big.NewInt(ns)))}
	})
	reg("(time.Duration).Nanoseconds", func(p *Path, _ *frame, a []Value, _ token.Pos) Value { return a[0] })
	reg("(time.Duration).Milliseconds", func(p *Path, _ *frame, a []Value, _ token.Pos) Value { return TDivPos(a[0].(*Term), tNsMs) })
	reg("(time.Duration).Microseconds", func(p *Path, _ *frame, a []Value, _ token.Pos) Value { return TDivPos(a[0].(*Term), TInt64(1000)) })
	regs([]string{"(time.Duration).Seconds", "(time.Duration).Minutes", "(time.Duration).Hours"}, func(p *Path, _ *frame, a []Value, _ token.Pos) Value {
		return FloatV{}
	})
	reg("(time.Duration).String", func(p *Path, _ *frame, a []Value, _ token.Pos) Value {
		return p.ufApp("dur_str", SString, true, a[0].(*Term))
	})
}

// daysFromCivil: days since 1970-01-01 (proleptic Gregorian)
func daysFromCivil(y, m, d int64) int64 {
	if m <= 2 {
		y--
	}
	era := y / 400
	if y < 0 {
		era = (y - 399) / 400
	}
	yoe := y - era*400
	mp := (m + 9) % 12
	doy := (153*mp+2)/5 + d - 1
	doe := yoe*365 + yoe/4 - yoe/100 + doy
	return era*146097 + doe - 719468
}


// EmitRec is one conformance output of a concrete run.
type EmitRec struct {
	Name  string `json:"name"`
	Value string `json:"value"`
}

func canonTerm(t *Term) string {
	if t == nil {
		return "nil"
	}
	if !t.IsConst() {
		return "SYMBOLIC:" + t.String()
	}
	switch t.sort {
	case SBool:
		if t.b {
			return "true"
		}
		return "false"
	case SInt:
		return t.i.String()
	case SString:
		return strconv.Quote(t.s)
	}
	return "?"
}

func canonValue(v Value) string {
	switch v := v.(type) {
	case nil:
		return "nil"
	case Iface:
		if v.T == nil {
			return "nil"
		}
		return canonValue(v.V)
	case *Term:
		return canonTerm(v)
	case IntV:
		if v.Nil {
			return "nil"
		}
		return canonTerm(v.V)
	case DecV:
		if v.Nil {
			return "nil"
		}
		return canonTerm(v.V)
	case TimeV:
		return canonTerm(v.NS)
	case *ErrObj:
		if v == nil {
			return "noerr"
		}
		return "err"
	case *Value:
		if v == nil {
			return "nil"
		}
		return canonValue(*v)
	case Struct:
		var parts []string
		for _, x := range v {
			parts = append(parts, canonValue(x))
		}
		return "{" + strings.Join(parts, " ") + "}"
	case SliceV:
		var parts []string
		for _, x := range v.A {
			parts = append(parts, canonValue(x))
		}
		return "[" + strings.Join(parts, " ") + "]"
	}
	return "UNSUPPORTED:" + showValue(v, 3)
}
