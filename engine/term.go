package main

// Term DAG: hash-consed SMT terms over Bool / Int / String with constant folding and
// interval tracking for Int terms (used to elide machine-integer wrap-arounds and to
// discharge trivial comparisons without a solver call).

import (
	"fmt"
	"math/big"
	"sort"
	"strconv"
	"strings"
	"sync"
)

type Sort int

const (
	SBool Sort = iota
	SInt
	SString
)

func (s Sort) String() string {
	switch s {
	case SBool:
		return "Bool"
	case SInt:
		return "Int"
	}
	return "String"
}

type Term struct {
	id   int
	op   string
	sort Sort
	args []*Term
	b    bool
	i    *big.Int
	s    string
	name string   // sym / uf name
	coefs []*big.Int // "lin": coefficient per arg; constant part in i
	lo   *big.Int // Int interval, nil = unbounded
	hi   *big.Int
}

var (
	ttMu    sync.Mutex
	ttTable = map[string]*Term{}
	ttNext  = 1
	// symbol registry: name -> term (so that ranges are remembered)
	symTable = map[string]*Term{}
	// side constraints attached to symbols / fresh q,r variables: name -> constraints
	ufInjective = map[string]bool{}
)

func mk(key string, build func() *Term) *Term {
	ttMu.Lock()
	defer ttMu.Unlock()
	if t, ok := ttTable[key]; ok {
		return t
	}
	t := build()
	t.id = ttNext
	ttNext++
	ttTable[key] = t
	return t
}

func argKey(op string, args []*Term) string {
	var sb strings.Builder
	sb.WriteString(op)
	for _, a := range args {
		sb.WriteByte(' ')
		sb.WriteString(strconv.Itoa(a.id))
	}
	return sb.String()
}

func (t *Term) IsConst() bool { return t.op == "const" }

func (t *Term) String() string { return smtInline(t, 6) }

// ---- constants

var bigZero = big.NewInt(0)
var bigOne = big.NewInt(1)

func TBool(b bool) *Term {
	k := "cb0"
	if b {
		k = "cb1"
	}
	return mk(k, func() *Term { return &Term{op: "const", sort: SBool, b: b} })
}

var (
	TTrue  = TBool(true)
	TFalse = TBool(false)
)

func TInt(i *big.Int) *Term {
	return mk("ci"+i.String(), func() *Term {
		c := new(big.Int).Set(i)
		return &Term{op: "const", sort: SInt, i: c, lo: c, hi: c}
	})
}
func TInt64(i int64) *Term { return TInt(big.NewInt(i)) }

func TStr(s string) *Term {
	return mk("cs"+s, func() *Term { return &Term{op: "const", sort: SString, s: s} })
}

// ---- symbols

func TSym(name string, sort Sort) *Term {
	return mk("sym "+name+" "+sort.String(), func() *Term {
		return &Term{op: "sym", sort: sort, name: name}
	})
}

// TSymRange declares an Int symbol with a known interval (the interval is also
// emitted as an assertion whenever the symbol is declared to a solver).
func TSymRange(name string, lo, hi *big.Int) *Term {
	ls, hs := "-", "-"
	if lo != nil {
		ls = lo.String()
	}
	if hi != nil {
		hs = hi.String()
	}
	// the interval is part of the term's identity: the same name may be used with different bounds by
	// different paths / harnesses, and a stale interval would fold comparisons unsoundly
	return mk("sym "+name+" Int "+ls+" "+hs, func() *Term {
		return &Term{op: "sym", sort: SInt, name: name, lo: lo, hi: hi}
	})
}

func TUF(name string, sort Sort, args ...*Term) *Term {
	return mk(argKey("uf "+name+" "+sort.String(), args), func() *Term {
		return &Term{op: "uf", sort: sort, name: name, args: args}
	})
}

// ---- helpers for intervals

func minBig(a, b *big.Int) *big.Int {
	if a == nil || b == nil {
		return nil
	}
	if a.Cmp(b) <= 0 {
		return a
	}
	return b
}
func maxBig(a, b *big.Int) *big.Int {
	if a == nil || b == nil {
		return nil
	}
	if a.Cmp(b) >= 0 {
		return a
	}
	return b
}
func addB(a, b *big.Int) *big.Int {
	if a == nil || b == nil {
		return nil
	}
	return new(big.Int).Add(a, b)
}
func subB(a, b *big.Int) *big.Int {
	if a == nil || b == nil {
		return nil
	}
	return new(big.Int).Sub(a, b)
}
func negB(a *big.Int) *big.Int {
	if a == nil {
		return nil
	}
	return new(big.Int).Neg(a)
}

func build(op string, sort Sort, args ...*Term) *Term {
	return mk(argKey(op, args), func() *Term { return &Term{op: op, sort: sort, args: args} })
}
func buildI(op string, lo, hi *big.Int, args ...*Term) *Term {
	return mk(argKey(op, args), func() *Term { return &Term{op: op, sort: SInt, args: args, lo: lo, hi: hi} })
}

// ---- boolean ops

func Not(a *Term) *Term {
	if a.IsConst() {
		return TBool(!a.b)
	}
	if a.op == "not" {
		return a.args[0]
	}
	return build("not", SBool, a)
}

func And(xs ...*Term) *Term {
	var out []*Term
	seen := map[int]bool{}
	for _, x := range xs {
		if x.IsConst() {
			if !x.b {
				return TFalse
			}
			continue
		}
		if x.op == "and" {
			for _, y := range x.args {
				if !seen[y.id] {
					seen[y.id] = true
					out = append(out, y)
				}
			}
			continue
		}
		if !seen[x.id] {
			seen[x.id] = true
			out = append(out, x)
		}
	}
	for _, x := range out {
		if x.op == "not" && seen[x.args[0].id] {
			return TFalse
		}
	}
	if len(out) == 0 {
		return TTrue
	}
	if len(out) == 1 {
		return out[0]
	}
	sort.Slice(out, func(i, j int) bool { return out[i].id < out[j].id })
	return build("and", SBool, out...)
}

func Or(xs ...*Term) *Term {
	var out []*Term
	seen := map[int]bool{}
	for _, x := range xs {
		if x.IsConst() {
			if x.b {
				return TTrue
			}
			continue
		}
		if x.op == "or" {
			for _, y := range x.args {
				if !seen[y.id] {
					seen[y.id] = true
					out = append(out, y)
				}
			}
			continue
		}
		if !seen[x.id] {
			seen[x.id] = true
			out = append(out, x)
		}
	}
	for _, x := range out {
		if x.op == "not" && seen[x.args[0].id] {
			return TTrue
		}
	}
	if len(out) == 0 {
		return TFalse
	}
	if len(out) == 1 {
		return out[0]
	}
	sort.Slice(out, func(i, j int) bool { return out[i].id < out[j].id })
	return build("or", SBool, out...)
}

func Implies(a, b *Term) *Term { return Or(Not(a), b) }

func Ite(c, a, b *Term) *Term {
	if c.IsConst() {
		if c.b {
			return a
		}
		return b
	}
	if a == b {
		return a
	}
	if a.sort == SBool {
		if a.IsConst() && b.IsConst() {
			if a.b {
				return c
			}
			return Not(c)
		}
		return Or(And(c, a), And(Not(c), b))
	}
	if a.sort == SInt {
		return buildI("ite", minBig(a.lo, b.lo), maxBig(a.hi, b.hi), c, a, b)
	}
	return build("ite", a.sort, c, a, b)
}

func Eq(a, b *Term) *Term {
	if a == b {
		return TTrue
	}
	if a.sort != b.sort {
		panic(fmt.Sprintf("Eq sort mismatch %v %v", a, b))
	}
	if a.IsConst() && b.IsConst() {
		switch a.sort {
		case SBool:
			return TBool(a.b == b.b)
		case SInt:
			return TBool(a.i.Cmp(b.i) == 0)
		default:
			return TBool(a.s == b.s)
		}
	}
	if a.sort == SInt {
		if a.hi != nil && b.lo != nil && a.hi.Cmp(b.lo) < 0 {
			return TFalse
		}
		if b.hi != nil && a.lo != nil && b.hi.Cmp(a.lo) < 0 {
			return TFalse
		}
	}
	if a.sort == SBool {
		if a.IsConst() {
			if a.b {
				return b
			}
			return Not(b)
		}
		if b.IsConst() {
			if b.b {
				return a
			}
			return Not(a)
		}
	}
	if a.sort == SString {
		// decimal rendering of an integer compared with a constant: int_str(t) [++ suffix] = "123suffix"  <=>  t = 123
		if r := intStrEq(a, b); r != nil {
			return r
		}
		if r := intStrEq(b, a); r != nil {
			return r
		}
		// concat with constant prefix vs constant: cheap refutation
		if r := strEqRefute(a, b); r {
			return TFalse
		}
	}
	if a.id > b.id {
		a, b = b, a
	}
	return build("=", SBool, a, b)
}

// intStrEq rewrites int_str(t) ++ C = K (C, K constants) into an integer equation; nil if the shape does not match.
func intStrEq(x, k *Term) *Term {
	if !k.IsConst() {
		return nil
	}
	var t *Term
	suffix := ""
	switch {
	case x.op == "uf" && x.name == "int_str":
		t = x.args[0]
	case x.op == "str.++" && len(x.args) == 2 && x.args[0].op == "uf" && x.args[0].name == "int_str" && x.args[1].IsConst():
		t = x.args[0].args[0]
		suffix = x.args[1].s
	default:
		return nil
	}
	if !strings.HasSuffix(k.s, suffix) {
		return TFalse
	}
	num := k.s[:len(k.s)-len(suffix)]
	v, ok := new(big.Int).SetString(num, 10)
	if !ok || v.String() != num {
		return TFalse // not the canonical decimal rendering of any integer
	}
	return Eq(t, TInt(v))
}

// strEqRefute: returns true when a and b can be shown different syntactically.
func strEqRefute(a, b *Term) bool {
	pa, fa := constPrefix(a)
	pb, fb := constPrefix(b)
	// if both fully constant handled elsewhere
	n := len(pa)
	if len(pb) < n {
		n = len(pb)
	}
	if pa[:n] != pb[:n] {
		return true
	}
	if fa && !fb && len(pb) > len(pa) {
		return true
	}
	if fb && !fa && len(pa) > len(pb) {
		return true
	}
	return false
}

// constPrefix returns the constant prefix of a string term and whether the term is fully constant.
func constPrefix(t *Term) (string, bool) {
	if t.IsConst() {
		return t.s, true
	}
	if t.op == "str.++" {
		p := ""
		for _, a := range t.args {
			q, full := constPrefix(a)
			p += q
			if !full {
				return p, false
			}
		}
		return p, true
	}
	return "", false
}

func Lt(a, b *Term) *Term {
	if a == b {
		return TFalse
	}
	if a.IsConst() && b.IsConst() {
		return TBool(a.i.Cmp(b.i) < 0)
	}
	if a.hi != nil && b.lo != nil && a.hi.Cmp(b.lo) < 0 {
		return TTrue
	}
	if a.lo != nil && b.hi != nil && a.lo.Cmp(b.hi) >= 0 {
		return TFalse
	}
	return build("<", SBool, a, b)
}
func Le(a, b *Term) *Term {
	if a == b {
		return TTrue
	}
	if a.IsConst() && b.IsConst() {
		return TBool(a.i.Cmp(b.i) <= 0)
	}
	if a.hi != nil && b.lo != nil && a.hi.Cmp(b.lo) <= 0 {
		return TTrue
	}
	if a.lo != nil && b.hi != nil && a.lo.Cmp(b.hi) > 0 {
		return TFalse
	}
	return build("<=", SBool, a, b)
}
func Gt(a, b *Term) *Term { return Lt(b, a) }
func Ge(a, b *Term) *Term { return Le(b, a) }

// ---- integer ops (mathematical integers)

// ---- linear normal form: k + c1*a1 + ... + cn*an with atoms sorted by id ("lin" terms)

type linform struct {
	k     *big.Int
	atoms []*Term
	coefs []*big.Int
}

func toLin(t *Term) linform {
	switch t.op {
	case "const":
		return linform{k: t.i}
	case "lin":
		return linform{k: t.i, atoms: t.args, coefs: t.coefs}
	}
	return linform{k: bigZero, atoms: []*Term{t}, coefs: []*big.Int{bigOne}}
}

func linMerge(x, y linform, sy *big.Int) linform {
	// x + sy*y
	r := linform{k: new(big.Int).Add(x.k, new(big.Int).Mul(sy, y.k))}
	i, j := 0, 0
	for i < len(x.atoms) || j < len(y.atoms) {
		switch {
		case j >= len(y.atoms) || (i < len(x.atoms) && x.atoms[i].id < y.atoms[j].id):
			r.atoms = append(r.atoms, x.atoms[i])
			r.coefs = append(r.coefs, x.coefs[i])
			i++
		case i >= len(x.atoms) || y.atoms[j].id < x.atoms[i].id:
			c := new(big.Int).Mul(sy, y.coefs[j])
			if c.Sign() != 0 {
				r.atoms = append(r.atoms, y.atoms[j])
				r.coefs = append(r.coefs, c)
			}
			j++
		default:
			c := new(big.Int).Add(x.coefs[i], new(big.Int).Mul(sy, y.coefs[j]))
			if c.Sign() != 0 {
				r.atoms = append(r.atoms, x.atoms[i])
				r.coefs = append(r.coefs, c)
			}
			i++
			j++
		}
	}
	return r
}

func linScale(x linform, c *big.Int) linform {
	if c.Sign() == 0 {
		return linform{k: bigZero}
	}
	r := linform{k: new(big.Int).Mul(x.k, c)}
	for i := range x.atoms {
		r.atoms = append(r.atoms, x.atoms[i])
		r.coefs = append(r.coefs, new(big.Int).Mul(x.coefs[i], c))
	}
	return r
}

func fromLin(l linform) *Term {
	if len(l.atoms) == 0 {
		return TInt(l.k)
	}
	if len(l.atoms) == 1 && l.k.Sign() == 0 && l.coefs[0].Cmp(bigOne) == 0 {
		return l.atoms[0]
	}
	var sb strings.Builder
	sb.WriteString("lin ")
	sb.WriteString(l.k.String())
	for i, a := range l.atoms {
		sb.WriteByte(' ')
		sb.WriteString(l.coefs[i].String())
		sb.WriteByte('*')
		sb.WriteString(strconv.Itoa(a.id))
	}
	return mk(sb.String(), func() *Term {
		lo, hi := new(big.Int).Set(l.k), new(big.Int).Set(l.k)
		for i, a := range l.atoms {
			c := l.coefs[i]
			var alo, ahi *big.Int
			if c.Sign() > 0 {
				alo, ahi = a.lo, a.hi
			} else {
				alo, ahi = a.hi, a.lo
			}
			if lo != nil {
				if alo == nil {
					lo = nil
				} else {
					lo.Add(lo, new(big.Int).Mul(c, alo))
				}
			}
			if hi != nil {
				if ahi == nil {
					hi = nil
				} else {
					hi.Add(hi, new(big.Int).Mul(c, ahi))
				}
			}
		}
		return &Term{op: "lin", sort: SInt, args: l.atoms, coefs: l.coefs, i: l.k, lo: lo, hi: hi}
	})
}

func Add(a, b *Term) *Term {
	if a.IsConst() && b.IsConst() {
		return TInt(new(big.Int).Add(a.i, b.i))
	}
	return fromLin(linMerge(toLin(a), toLin(b), bigOne))
}

var bigMinusOne = big.NewInt(-1)

func Neg(a *Term) *Term {
	if a.IsConst() {
		return TInt(new(big.Int).Neg(a.i))
	}
	return fromLin(linScale(toLin(a), bigMinusOne))
}

func Sub(a, b *Term) *Term {
	if a == b {
		return TInt64(0)
	}
	return fromLin(linMerge(toLin(a), toLin(b), bigMinusOne))
}

func mulBounds(a, b *Term) (lo, hi *big.Int) {
	if a.lo == nil || a.hi == nil || b.lo == nil || b.hi == nil {
		// partial knowledge: both non-negative
		if a.lo != nil && b.lo != nil && a.lo.Sign() >= 0 && b.lo.Sign() >= 0 {
			lo = new(big.Int).Mul(a.lo, b.lo)
			if a.hi != nil && b.hi != nil {
				hi = new(big.Int).Mul(a.hi, b.hi)
			}
			return
		}
		return nil, nil
	}
	c := []*big.Int{new(big.Int).Mul(a.lo, b.lo), new(big.Int).Mul(a.lo, b.hi), new(big.Int).Mul(a.hi, b.lo), new(big.Int).Mul(a.hi, b.hi)}
	lo, hi = c[0], c[0]
	for _, x := range c[1:] {
		if x.Cmp(lo) < 0 {
			lo = x
		}
		if x.Cmp(hi) > 0 {
			hi = x
		}
	}
	return
}

func Mul(a, b *Term) *Term {
	if a.IsConst() && b.IsConst() {
		return TInt(new(big.Int).Mul(a.i, b.i))
	}
	if b.IsConst() {
		a, b = b, a
	}
	if a.IsConst() {
		return fromLin(linScale(toLin(b), a.i))
	}
	// pull constant factors out of single-atom linear terms: (c*x) * y = c * (x*y)
	ca, xa := linFactor(a)
	cb, xb := linFactor(b)
	if ca.Cmp(bigOne) != 0 || cb.Cmp(bigOne) != 0 {
		return Mul(TInt(new(big.Int).Mul(ca, cb)), Mul(xa, xb))
	}
	if a.id > b.id {
		a, b = b, a
	}
	lo, hi := mulBounds(a, b)
	return buildI("*", lo, hi, a, b)
}

// linFactor: if t = c*x (single atom, no constant) returns (c, x), else (1, t).
func linFactor(t *Term) (*big.Int, *Term) {
	if t.op == "lin" && len(t.args) == 1 && t.i.Sign() == 0 {
		return t.coefs[0], t.args[0]
	}
	return bigOne, t
}

// Div is SMT-LIB integer division (floor for positive divisors, Euclidean in general).
// Only used with divisors known to be positive.
func Div(a, b *Term) *Term {
	if b.IsConst() && b.i.Sign() == 0 {
		panic("Div by constant zero")
	}
	if a.IsConst() && b.IsConst() {
		q, m := new(big.Int).DivMod(a.i, b.i, new(big.Int)) // Euclidean
		_ = m
		return TInt(q)
	}
	if b.IsConst() && b.i.Cmp(bigOne) == 0 {
		return a
	}
	if b.IsConst() && b.i.Sign() > 0 {
		// exact division of a linear term whose coefficients and constant are all multiples of c
		if a.op == "lin" {
			ok := new(big.Int).Mod(a.i, b.i).Sign() == 0
			for _, c := range a.coefs {
				if new(big.Int).Mod(c, b.i).Sign() != 0 {
					ok = false
				}
			}
			if ok {
				l := linform{k: new(big.Int).Div(a.i, b.i)}
				for i, at := range a.args {
					l.atoms = append(l.atoms, at)
					l.coefs = append(l.coefs, new(big.Int).Div(a.coefs[i], b.i))
				}
				return fromLin(l)
			}
		}
		// (x div c1) div c2 = x div (c1*c2) for positive constants
		if a.op == "div" && a.args[1].IsConst() && a.args[1].i.Sign() > 0 {
			return Div(a.args[0], TInt(new(big.Int).Mul(a.args[1].i, b.i)))
		}
		var lo, hi *big.Int
		if a.lo != nil {
			lo, _ = new(big.Int).DivMod(a.lo, b.i, new(big.Int))
		}
		if a.hi != nil {
			hi, _ = new(big.Int).DivMod(a.hi, b.i, new(big.Int))
		}
		return buildI("div", lo, hi, a, b)
	}
	var lo, hi *big.Int
	if a.lo != nil && a.lo.Sign() >= 0 && b.lo != nil && b.lo.Sign() > 0 {
		lo = bigZero
		hi = a.hi
	}
	return buildI("div", lo, hi, a, b)
}

func Mod(a, b *Term) *Term {
	if a.IsConst() && b.IsConst() && b.i.Sign() != 0 {
		_, m := new(big.Int).DivMod(a.i, b.i, new(big.Int))
		return TInt(m)
	}
	if b.IsConst() && b.i.Sign() > 0 {
		if a.lo != nil && a.hi != nil && a.lo.Sign() >= 0 && a.hi.Cmp(b.i) < 0 {
			return a
		}
		return buildI("mod", bigZero, new(big.Int).Sub(b.i, bigOne), a, b)
	}
	var hi *big.Int
	if b.hi != nil && b.lo != nil && b.lo.Sign() > 0 {
		hi = new(big.Int).Sub(b.hi, bigOne)
	}
	return buildI("mod", bigZero, hi, a, b)
}

func Abs(a *Term) *Term {
	if a.lo != nil && a.lo.Sign() >= 0 {
		return a
	}
	if a.hi != nil && a.hi.Sign() <= 0 {
		return Neg(a)
	}
	return Ite(Ge(a, TInt64(0)), a, Neg(a))
}

// TDivConst: Go-style truncated division by a positive constant.
func TDivPos(a, b *Term) *Term {
	// b known > 0
	if a.lo != nil && a.lo.Sign() >= 0 {
		return Div(a, b)
	}
	if a.hi != nil && a.hi.Sign() <= 0 {
		return Neg(Div(Neg(a), b))
	}
	return Ite(Ge(a, TInt64(0)), Div(a, b), Neg(Div(Neg(a), b)))
}

// ---- string ops

func Concat(xs ...*Term) *Term {
	var out []*Term
	for _, x := range xs {
		if x.op == "str.++" {
			out = append(out, x.args...)
		} else {
			out = append(out, x)
		}
	}
	var merged []*Term
	for _, x := range out {
		if x.IsConst() {
			if x.s == "" {
				continue
			}
			if n := len(merged); n > 0 && merged[n-1].IsConst() {
				merged[n-1] = TStr(merged[n-1].s + x.s)
				continue
			}
		}
		merged = append(merged, x)
	}
	if len(merged) == 0 {
		return TStr("")
	}
	if len(merged) == 1 {
		return merged[0]
	}
	return build("str.++", SString, merged...)
}

func StrLen(a *Term) *Term {
	if a.IsConst() {
		return TInt64(int64(len(a.s)))
	}
	if a.op == "str.++" {
		r := TInt64(0)
		for _, x := range a.args {
			r = Add(r, StrLen(x))
		}
		return r
	}
	return buildI("str.len", bigZero, nil, a)
}

func StrLt(a, b *Term) *Term {
	if a == b {
		return TFalse
	}
	if a.IsConst() && b.IsConst() {
		return TBool(a.s < b.s)
	}
	return build("str.<", SBool, a, b)
}

func StrPrefixOf(p, s *Term) *Term {
	if p.IsConst() && p.s == "" {
		return TTrue
	}
	if p.IsConst() && s.IsConst() {
		return TBool(strings.HasPrefix(s.s, p.s))
	}
	if p.IsConst() {
		cp, full := constPrefix(s)
		if len(cp) >= len(p.s) {
			return TBool(strings.HasPrefix(cp, p.s))
		}
		if !strings.HasPrefix(p.s, cp) {
			return TFalse
		}
		if full {
			return TFalse
		}
	}
	return build("str.prefixof", SBool, p, s)
}

// ---- printing

func smtConst(t *Term) string {
	switch t.sort {
	case SBool:
		if t.b {
			return "true"
		}
		return "false"
	case SInt:
		if t.i.Sign() < 0 {
			return "(- " + new(big.Int).Neg(t.i).String() + ")"
		}
		return t.i.String()
	default:
		return smtString(t.s)
	}
}

func smtString(s string) string {
	var sb strings.Builder
	sb.WriteByte('"')
	for _, r := range []byte(s) {
		switch {
		case r == '"':
			sb.WriteString(`""`)
		case r == '\\':
			sb.WriteString(`\u{5c}`)
		case r >= 0x20 && r < 0x7f:
			sb.WriteByte(r)
		default:
			fmt.Fprintf(&sb, `\u{%x}`, r)
		}
	}
	sb.WriteByte('"')
	return sb.String()
}

func smtSymName(n string) string {
	ok := true
	for _, c := range n {
		if !(c >= 'a' && c <= 'z' || c >= 'A' && c <= 'Z' || c >= '0' && c <= '9' || c == '_' || c == '.' || c == '!' || c == '$') {
			ok = false
		}
	}
	if ok && n != "" && !(n[0] >= '0' && n[0] <= '9') {
		return n
	}
	return "|" + strings.ReplaceAll(strings.ReplaceAll(n, "|", "_"), "\\", "_") + "|"
}

func smtOp(t *Term) string {
	switch t.op {
	case "neg":
		return "-"
	}
	return t.op
}

// smtInline renders a term as a tree (for debugging / small terms).
func smtInline(t *Term, depth int) string {
	switch t.op {
	case "const":
		return smtConst(t)
	case "sym":
		return smtSymName(t.name)
	}
	if depth == 0 {
		return fmt.Sprintf("#%d", t.id)
	}
	if t.op == "lin" {
		var sb strings.Builder
		sb.WriteString("(+ " + smtConst(TInt(t.i)))
		for i, a := range t.args {
			sb.WriteString(" (* " + smtConst(TInt(t.coefs[i])) + " " + smtInline(a, depth-1) + ")")
		}
		sb.WriteByte(')')
		return sb.String()
	}
	var sb strings.Builder
	sb.WriteByte('(')
	if t.op == "uf" {
		sb.WriteString(smtSymName(t.name))
	} else {
		sb.WriteString(smtOp(t))
	}
	for _, a := range t.args {
		sb.WriteByte(' ')
		sb.WriteString(smtInline(a, depth-1))
	}
	sb.WriteByte(')')
	if t.op == "uf" && len(t.args) == 0 {
		return smtSymName(t.name)
	}
	return sb.String()
}

// Emitter writes definitions of terms to a solver incrementally: every non-leaf
// node is given a name via define-fun once per emitter lifetime.
type Emitter struct {
	defined map[int]bool
	symDecl map[string]bool
	ufDecl  map[string]bool
	ufApps  map[string][]*Term // injective uf name -> applications seen
	out     *strings.Builder
}

func NewEmitter() *Emitter {
	return &Emitter{defined: map[int]bool{}, symDecl: map[string]bool{}, ufDecl: map[string]bool{}, ufApps: map[string][]*Term{}, out: &strings.Builder{}}
}

func (e *Emitter) ref(t *Term) string {
	switch t.op {
	case "const":
		return smtConst(t)
	case "sym":
		return smtSymName(t.name)
	}
	return "n" + strconv.Itoa(t.id)
}

// Define makes sure t (and everything below) is known to the solver; returns the reference text.
func (e *Emitter) Define(t *Term) string {
	e.define(t)
	return e.ref(t)
}

func (e *Emitter) define(t *Term) {
	switch t.op {
	case "const":
		return
	case "sym":
		if !e.symDecl[t.name] {
			e.symDecl[t.name] = true
			fmt.Fprintf(e.out, "(declare-const %s %s)\n", smtSymName(t.name), t.sort)
		}
		return
	}
	if e.defined[t.id] {
		return
	}
	e.defined[t.id] = true
	for _, a := range t.args {
		e.define(a)
	}
	if t.op == "uf" {
		key := t.name
		if !e.ufDecl[key] {
			e.ufDecl[key] = true
			var as []string
			for _, a := range t.args {
				as = append(as, a.sort.String())
			}
			fmt.Fprintf(e.out, "(declare-fun %s (%s) %s)\n", smtSymName(t.name), strings.Join(as, " "), t.sort)
		}
	}
	var sb strings.Builder
	if t.op == "lin" {
		sb.WriteString("(+ " + smtConst(TInt(t.i)))
		for i, a := range t.args {
			if t.coefs[i].Cmp(bigOne) == 0 {
				sb.WriteString(" " + e.ref(a))
			} else {
				sb.WriteString(" (* " + smtConst(TInt(t.coefs[i])) + " " + e.ref(a) + ")")
			}
		}
		sb.WriteByte(')')
	} else if t.op == "uf" && len(t.args) == 0 {
		sb.WriteString(smtSymName(t.name))
	} else {
		sb.WriteByte('(')
		if t.op == "uf" {
			sb.WriteString(smtSymName(t.name))
		} else {
			sb.WriteString(smtOp(t))
		}
		for _, a := range t.args {
			sb.WriteByte(' ')
			sb.WriteString(e.ref(a))
		}
		sb.WriteByte(')')
	}
	fmt.Fprintf(e.out, "(define-fun n%d () %s %s)\n", t.id, t.sort, sb.String())
}

// Flush returns and clears pending text.
func (e *Emitter) Flush() string {
	s := e.out.String()
	e.out.Reset()
	return s
}

// collectSyms gathers the symbols under the given terms.
func collectSyms(ts []*Term) []*Term {
	seen := map[int]bool{}
	var out []*Term
	var walk func(t *Term)
	walk = func(t *Term) {
		if seen[t.id] {
			return
		}
		seen[t.id] = true
		if t.op == "sym" {
			out = append(out, t)
		}
		for _, a := range t.args {
			walk(a)
		}
	}
	for _, t := range ts {
		walk(t)
	}
	sort.Slice(out, func(i, j int) bool { return out[i].name < out[j].name })
	return out
}

// evalTerm evaluates a term under a model (symbol name -> constant term). Missing symbols default to 0/false/"".
func evalTerm(t *Term, model map[string]*Term, memo map[int]*Term) *Term {
	if r, ok := memo[t.id]; ok {
		return r
	}
	var r *Term
	switch t.op {
	case "const":
		r = t
	case "sym":
		if v, ok := model[t.name]; ok {
			r = v
		} else {
			switch t.sort {
			case SBool:
				r = TFalse
			case SInt:
				r = TInt64(0)
			default:
				r = TStr("")
			}
		}
	default:
		args := make([]*Term, len(t.args))
		for i, a := range t.args {
			args[i] = evalTerm(a, model, memo)
		}
		r = rebuild(t, args)
	}
	memo[t.id] = r
	return r
}

func rebuild(t *Term, a []*Term) *Term {
	switch t.op {
	case "not":
		return Not(a[0])
	case "and":
		return And(a...)
	case "or":
		return Or(a...)
	case "ite":
		return Ite(a[0], a[1], a[2])
	case "=":
		return Eq(a[0], a[1])
	case "<":
		return Lt(a[0], a[1])
	case "<=":
		return Le(a[0], a[1])
	case "lin":
		r := TInt(t.i)
		for i := range a {
			r = Add(r, Mul(TInt(t.coefs[i]), a[i]))
		}
		return r
	case "*":
		return Mul(a[0], a[1])
	case "div":
		if a[1].IsConst() && a[1].i.Sign() == 0 {
			return TInt64(0)
		}
		return Div(a[0], a[1])
	case "mod":
		if a[1].IsConst() && a[1].i.Sign() == 0 {
			return a[0]
		}
		return Mod(a[0], a[1])
	case "str.++":
		return Concat(a...)
	case "str.len":
		return StrLen(a[0])
	case "str.<":
		return StrLt(a[0], a[1])
	case "str.prefixof":
		return StrPrefixOf(a[0], a[1])
	case "uf":
		return TUF(t.name, t.sort, a...)
	}
	panic("rebuild: " + t.op)
}
