package main

// Solver driver: one long-lived SMT solver process (z3 -in) spoken to over pipes.

import (
	"bufio"
	"fmt"
	"io"
	"math/big"
	"os"
	"os/exec"
	"strings"
	"sync/atomic"
	"time"
)

type Solver struct {
	name    string
	cmd     *exec.Cmd
	in      io.WriteCloser
	out     *bufio.Reader
	em      *Emitter
	depth   int
	queries int
	timeNS  int64
	log     *os.File
	argv    []string
	gen     int // incremented on every (re)start: users re-assert their state when it changes
}

var (
	statQueries   int64
	statSolverNS  int64
	statUnknown   int64
	solverLogPath string
)

func solverArgv(kind string) []string {
	switch kind {
	case "z3-new":
		return []string{"z3-new", "-in"}
	case "cvc5":
		return []string{"cvc5", "--incremental", "--lang=smt2", "--produce-models", "--strings-exp"}
	}
	return []string{"z3", "-in"}
}

func NewSolver(kind string) *Solver {
	s := &Solver{name: kind, argv: solverArgv(kind)}
	s.start()
	return s
}

func (s *Solver) start() {
	s.cmd = exec.Command(s.argv[0], s.argv[1:]...)
	in, err := s.cmd.StdinPipe()
	if err != nil {
		panic(err)
	}
	out, err := s.cmd.StdoutPipe()
	if err != nil {
		panic(err)
	}
	s.cmd.Stderr = s.cmd.Stdout
	if err := s.cmd.Start(); err != nil {
		panic(fmt.Sprintf("cannot start solver %v: %v", s.argv, err))
	}
	s.in = in
	s.out = bufio.NewReaderSize(out, 1<<16)
	s.em = NewEmitter()
	s.depth = 0
	s.gen++
	if strings.HasPrefix(s.name, "z3") {
		s.send("(set-option :global-declarations true)\n")
	}
	if solverLogPath != "" && s.log == nil {
		s.log, _ = os.Create(fmt.Sprintf("%s.%d.smt2", solverLogPath, time.Now().UnixNano()))
	}
}

func (s *Solver) Close() {
	if s.cmd != nil {
		s.in.Close()
		s.cmd.Process.Kill()
		s.cmd.Wait()
		s.cmd = nil
	}
}

func (s *Solver) restart() {
	s.Close()
	s.start()
}

func (s *Solver) send(txt string) {
	if s.log != nil {
		s.log.WriteString(txt)
	}
	io.WriteString(s.in, txt)
}

// roundtrip sends text followed by an echo marker and returns all output lines up to the marker.
func (s *Solver) roundtrip(txt string) ([]string, error) {
	s.send(txt + "(echo \"@@done\")\n")
	var lines []string
	for {
		line, err := s.out.ReadString('\n')
		if err != nil {
			return lines, fmt.Errorf("solver died: %v (got %v)", err, lines)
		}
		line = strings.TrimRight(line, "\r\n")
		if line == "@@done" || line == "\"@@done\"" {
			return lines, nil
		}
		lines = append(lines, line)
	}
}

func (s *Solver) Push() {
	s.send(s.em.Flush() + "(push 1)\n")
	s.depth++
}
func (s *Solver) Pop() {
	if s.depth > 0 {
		s.send("(pop 1)\n")
		s.depth--
	}
}
func (s *Solver) PopAll() {
	for s.depth > 0 {
		s.Pop()
	}
}

func (s *Solver) Assert(t *Term) {
	if t == TTrue {
		return
	}
	r := s.em.Define(t)
	s.send(s.em.Flush() + "(assert " + r + ")\n")
}

// Check runs check-sat with a soft timeout. Returns "sat", "unsat", "unknown" or "error: ...".
func (s *Solver) Check(timeoutMs int) string {
	t0 := time.Now()
	var pre string
	if strings.HasPrefix(s.name, "z3") {
		pre = fmt.Sprintf("(set-option :timeout %d)\n", timeoutMs)
	} else {
		pre = fmt.Sprintf("(set-option :tlimit-per %d)\n", timeoutMs)
	}
	lines, err := s.roundtrip(s.em.Flush() + pre + "(check-sat)\n")
	d := time.Since(t0)
	s.queries++
	s.timeNS += int64(d)
	atomic.AddInt64(&statQueries, 1)
	atomic.AddInt64(&statSolverNS, int64(d))
	if err != nil {
		s.restart()
		return "error: " + err.Error()
	}
	res := ""
	for _, l := range lines {
		if strings.Contains(l, "(error") {
			// some command since the last answer was rejected (possibly an assertion): the process state can no longer be
			// trusted to mirror ours, so start over; users notice the new generation and re-assert their state
			s.restart()
			return "error: " + l
		}
		switch l {
		case "sat", "unsat", "unknown", "timeout":
			res = l
		}
	}
	if res == "timeout" {
		res = "unknown"
	}
	if res == "" {
		return "error: no answer: " + strings.Join(lines, " | ")
	}
	if res == "unknown" {
		atomic.AddInt64(&statUnknown, 1)
	}
	return res
}

// Model returns the values of the given symbols after a sat answer.
func (s *Solver) Model(syms []*Term) map[string]*Term {
	m := map[string]*Term{}
	if len(syms) == 0 {
		return m
	}
	var names []string
	for _, t := range syms {
		names = append(names, smtSymName(t.name))
	}
	lines, err := s.roundtrip("(get-value (" + strings.Join(names, " ") + "))\n")
	if err != nil {
		return m
	}
	txt := strings.Join(lines, "\n")
	sx, ok := parseSexpr(txt)
	if !ok || sx.list == nil {
		return m
	}
	for i, pair := range sx.list {
		if len(pair.list) != 2 || i >= len(syms) {
			continue
		}
		v := sexprToConst(pair.list[1], syms[i].sort)
		if v != nil {
			m[syms[i].name] = v
		}
	}
	return m
}

// CheckOnce decides the conjunction of assertions from a clean solver state (non-incremental mode).
func (s *Solver) CheckOnce(assertions []*Term, timeoutMs int, wantModel bool) (string, map[string]*Term) {
	s.send("(reset)\n")
	if strings.HasPrefix(s.name, "z3") {
		s.send("(set-option :global-declarations true)\n")
	}
	s.em = NewEmitter()
	s.depth = 0
	for _, a := range assertions {
		s.Assert(a)
	}
	r := s.Check(timeoutMs)
	var m map[string]*Term
	if r == "sat" && wantModel {
		m = s.Model(collectSyms(assertions))
	}
	return r, m
}

// QueryText renders a self-contained SMT-LIB script for the assertions (for dumps / cross-checks).
func QueryText(assertions []*Term) string {
	em := NewEmitter()
	var sb strings.Builder
	for _, a := range assertions {
		r := em.Define(a)
		sb.WriteString(em.Flush())
		sb.WriteString("(assert " + r + ")\n")
	}
	sb.WriteString("(check-sat)\n")
	return sb.String()
}

// ---- tiny s-expression parser for get-value output

type sexpr struct {
	atom string
	str  bool
	list []*sexpr
}

func parseSexpr(s string) (*sexpr, bool) {
	p := &sxParser{s: s}
	x := p.parse()
	return x, x != nil
}

type sxParser struct {
	s string
	i int
}

func (p *sxParser) ws() {
	for p.i < len(p.s) && (p.s[p.i] == ' ' || p.s[p.i] == '\n' || p.s[p.i] == '\t' || p.s[p.i] == '\r') {
		p.i++
	}
}

func (p *sxParser) parse() *sexpr {
	p.ws()
	if p.i >= len(p.s) {
		return nil
	}
	c := p.s[p.i]
	if c == '(' {
		p.i++
		x := &sexpr{list: []*sexpr{}}
		for {
			p.ws()
			if p.i >= len(p.s) {
				return nil
			}
			if p.s[p.i] == ')' {
				p.i++
				return x
			}
			y := p.parse()
			if y == nil {
				return nil
			}
			x.list = append(x.list, y)
		}
	}
	if c == '"' {
		p.i++
		var sb strings.Builder
		for p.i < len(p.s) {
			if p.s[p.i] == '"' {
				if p.i+1 < len(p.s) && p.s[p.i+1] == '"' {
					sb.WriteByte('"')
					p.i += 2
					continue
				}
				p.i++
				break
			}
			sb.WriteByte(p.s[p.i])
			p.i++
		}
		return &sexpr{atom: unescapeSMT(sb.String()), str: true}
	}
	if c == '|' {
		j := strings.IndexByte(p.s[p.i+1:], '|')
		if j < 0 {
			return nil
		}
		a := p.s[p.i+1 : p.i+1+j]
		p.i += j + 2
		return &sexpr{atom: a}
	}
	j := p.i
	for j < len(p.s) && !strings.ContainsRune(" \n\t\r()", rune(p.s[j])) {
		j++
	}
	a := p.s[p.i:j]
	p.i = j
	return &sexpr{atom: a}
}

func unescapeSMT(s string) string {
	var sb strings.Builder
	for i := 0; i < len(s); i++ {
		if s[i] == '\\' && i+2 < len(s) && s[i+1] == 'u' {
			// \u{XX} or \uXXXX
			if s[i+2] == '{' {
				j := strings.IndexByte(s[i:], '}')
				if j > 0 {
					var v int
					fmt.Sscanf(s[i+3:i+j], "%x", &v)
					sb.WriteByte(byte(v))
					i += j
					continue
				}
			} else if i+5 < len(s) {
				var v int
				fmt.Sscanf(s[i+2:i+6], "%x", &v)
				sb.WriteByte(byte(v))
				i += 5
				continue
			}
		}
		if s[i] == '\\' && i+3 < len(s) && s[i+1] == 'x' {
			var v int
			fmt.Sscanf(s[i+2:i+4], "%x", &v)
			sb.WriteByte(byte(v))
			i += 3
			continue
		}
		sb.WriteByte(s[i])
	}
	return sb.String()
}

func sexprToConst(x *sexpr, sort Sort) *Term {
	switch sort {
	case SBool:
		if x.atom == "true" {
			return TTrue
		}
		if x.atom == "false" {
			return TFalse
		}
	case SInt:
		if x.list == nil {
			if v, ok := new(big.Int).SetString(x.atom, 10); ok {
				return TInt(v)
			}
			return nil
		}
		if len(x.list) == 2 && x.list[0].atom == "-" {
			if v := sexprToConst(x.list[1], SInt); v != nil {
				return TInt(new(big.Int).Neg(v.i))
			}
		}
	case SString:
		if x.str {
			return TStr(x.atom)
		}
	}
	return nil
}
