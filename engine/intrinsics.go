package main

// Intrinsics: summaries of library functions that are not executed from source
// (math.Int, sdk.Dec, time, errors, fmt, sort, ...). Each states its panic set.

import (
	"fmt"
	"go/token"
	"go/types"
	"math/big"
	"regexp"
	"strconv"
	"strings"
)

type intrinsicFn func(p *Path, caller *frame, args []Value, pos token.Pos) Value

var intrinsics = map[string]intrinsicFn{}

func reg(name string, f intrinsicFn) { intrinsics[name] = f }
func regs(names []string, f intrinsicFn) {
	for _, n := range names {
		intrinsics[n] = f
	}
}

const (
	pkMath = "cosmossdk.io/math"
	pkSDK  = "github.com/cosmos/cosmos-sdk/types"
)

var (
	pow18     = new(big.Int).Exp(big.NewInt(10), big.NewInt(18), nil)
	half18    = new(big.Int).Div(pow18, big.NewInt(2))
	tPow18    = TInt(pow18)
	tHalf18   = TInt(half18)
	two256    = new(big.Int).Lsh(bigOne, 256)
	two315    = new(big.Int).Lsh(bigOne, 315)
	maxInt64  = new(big.Int).SetInt64(1<<63 - 1)
	minInt64  = new(big.Int).SetInt64(-1 << 63)
	maxUint64 = new(big.Int).SetUint64(^uint64(0))
)

func (p *Path) newID() int { p.allocID++; return p.allocID }

func (p *Path) mkInt(t *Term) IntV { return IntV{V: t, ID: p.newID()} }
func (p *Path) mkDec(t *Term) DecV { return DecV{V: t, ID: p.newID()} }

func (p *Path) intArg(v Value, pos token.Pos, what string) *Term {
	iv, ok := v.(IntV)
	if !ok {
		p.unsupported("expected math.Int, got %T in %s", v, what)
	}
	if iv.Nil {
		p.panicNow(p.site(pos), "nil pointer dereference: "+what+" on nil math.Int", nil)
	}
	return iv.V
}

func (p *Path) decArg(v Value, pos token.Pos, what string) *Term {
	dv, ok := v.(DecV)
	if !ok {
		p.unsupported("expected sdk.Dec, got %T in %s", v, what)
	}
	if dv.Nil {
		p.panicNow(p.site(pos), "nil pointer dereference: "+what+" on nil sdk.Dec", nil)
	}
	return dv.V
}

// checkBits: panic if |t| >= 2^bits
func (p *Path) checkBits(t *Term, lim *big.Int, pos token.Pos, what string) {
	if t.lo != nil && t.hi != nil && t.hi.Cmp(lim) < 0 && new(big.Int).Neg(t.lo).Cmp(lim) < 0 {
		return
	}
	if p.knobs["ignore_overflow"] != 0 {
		return
	}
	c := Or(Ge(t, TInt(lim)), Le(t, TInt(new(big.Int).Neg(lim))))
	p.panicIf(c, p.site(pos), what+": Int overflow")
}

// chopRound: banker's rounding of x / 10^18 (sdk chopPrecisionAndRound)
func chopRound(x *Term) *Term {
	pos := func(x *Term) *Term {
		q := Div(x, tPow18)
		r := Mod(x, tPow18)
		up := Or(Gt(r, tHalf18), And(Eq(r, tHalf18), Eq(Mod(q, TInt64(2)), TInt64(1))))
		return Add(q, Ite(up, TInt64(1), TInt64(0)))
	}
	if x.lo != nil && x.lo.Sign() >= 0 {
		return pos(x)
	}
	if x.hi != nil && x.hi.Sign() <= 0 {
		return Neg(pos(Neg(x)))
	}
	return Ite(Ge(x, TInt64(0)), pos(x), Neg(pos(Neg(x))))
}

// chopTrunc: x / 10^18 truncated toward zero
func chopTrunc(x *Term) *Term { return TDivPos(x, tPow18) }

// path-aware variants: the sign case split is resolved by the solver when the path condition decides it
func (p *Path) chopTrunc(x *Term) *Term {
	if x.lo != nil && x.lo.Sign() >= 0 || x.hi != nil && x.hi.Sign() <= 0 {
		return chopTrunc(x)
	}
	if p.nonneg(x, 0) {
		return Div(x, tPow18)
	}
	if p.proves(Le(x, TInt64(0))) {
		return Neg(Div(Neg(x), tPow18))
	}
	return chopTrunc(x)
}

func (p *Path) chopRound(x *Term) *Term {
	if x.lo != nil && x.lo.Sign() >= 0 || x.hi != nil && x.hi.Sign() <= 0 {
		return chopRound(x)
	}
	if p.nonneg(x, 0) {
		return chopRoundPos(x)
	}
	if p.proves(Le(x, TInt64(0))) {
		return Neg(chopRoundPos(Neg(x)))
	}
	return chopRound(x)
}

func chopRoundPos(x *Term) *Term {
	q := Div(x, tPow18)
	r := Mod(x, tPow18)
	up := Or(Gt(r, tHalf18), And(Eq(r, tHalf18), Eq(Mod(q, TInt64(2)), TInt64(1))))
	return Add(q, Ite(up, TInt64(1), TInt64(0)))
}

var reDenom = regexp.MustCompile(`^[a-zA-Z][a-zA-Z0-9/:._-]{2,127}$`)

func init() {
	// ------------------------------------------------------------ math.Int
	intCtor := func(p *Path, _ *frame, a []Value, _ token.Pos) Value { return p.mkInt(a[0].(*Term)) }
	regs([]string{pkMath + ".NewInt", pkMath + ".NewIntFromUint64"}, intCtor)
	reg(pkMath+".ZeroInt", func(p *Path, _ *frame, a []Value, _ token.Pos) Value { return p.mkInt(TInt64(0)) })
	reg(pkMath+".OneInt", func(p *Path, _ *frame, a []Value, _ token.Pos) Value { return p.mkInt(TInt64(1)) })
	reg(pkMath+".NewIntFromString", func(p *Path, _ *frame, a []Value, _ token.Pos) Value {
		s := a[0].(*Term)
		if s.IsConst() {
			v, ok := new(big.Int).SetString(s.s, 0)
			if !ok || v.BitLen() > 256 {
				return Tuple{IntV{Nil: true}, TFalse}
			}
			return Tuple{p.mkInt(TInt(v)), TTrue}
		}
		ok := TUF("intparse_ok", SBool, s)
		if p.branch(ok) {
			v := TUF("intparse", SInt, s)
			p.assume(And(Lt(v, TInt(two256)), Gt(v, TInt(new(big.Int).Neg(two256)))))
			return Tuple{p.mkInt(v), TTrue}
		}
		return Tuple{IntV{Nil: true}, TFalse}
	})
	reg("("+pkMath+".Int).IsNil", func(p *Path, _ *frame, a []Value, _ token.Pos) Value { return TBool(a[0].(IntV).Nil) })
	reg("("+pkMath+".Int).String", func(p *Path, _ *frame, a []Value, _ token.Pos) Value {
		iv := a[0].(IntV)
		if iv.Nil {
			return TStr("<nil>")
		}
		return p.intString(iv.V)
	})
	intPred := func(name string, f func(x *Term) *Term) {
		reg("("+pkMath+".Int)."+name, func(p *Path, _ *frame, a []Value, pos token.Pos) Value {
			return f(p.intArg(a[0], pos, name))
		})
	}
	intPred("IsZero", func(x *Term) *Term { return Eq(x, TInt64(0)) })
	intPred("IsNegative", func(x *Term) *Term { return Lt(x, TInt64(0)) })
	intPred("IsPositive", func(x *Term) *Term { return Gt(x, TInt64(0)) })
	intPred("IsInt64", func(x *Term) *Term { return And(Ge(x, TInt(minInt64)), Le(x, TInt(maxInt64))) })
	intPred("IsUint64", func(x *Term) *Term { return And(Ge(x, TInt64(0)), Le(x, TInt(maxUint64))) })
	intPred("Sign", func(x *Term) *Term { return Ite(Gt(x, TInt64(0)), TInt64(1), Ite(Lt(x, TInt64(0)), TInt64(-1), TInt64(0))) })
	reg("("+pkMath+".Int).Int64", func(p *Path, _ *frame, a []Value, pos token.Pos) Value {
		x := p.intArg(a[0], pos, "Int64")
		p.panicIf(Not(And(Ge(x, TInt(minInt64)), Le(x, TInt(maxInt64)))), p.site(pos), "Int64() out of bound")
		return x
	})
	reg("("+pkMath+".Int).Uint64", func(p *Path, _ *frame, a []Value, pos token.Pos) Value {
		x := p.intArg(a[0], pos, "Uint64")
		p.panicIf(Not(And(Ge(x, TInt64(0)), Le(x, TInt(maxUint64)))), p.site(pos), "Uint64() out of bounds")
		return x
	})
	intCmp := func(name string, f func(x, y *Term) *Term) {
		reg("("+pkMath+".Int)."+name, func(p *Path, _ *frame, a []Value, pos token.Pos) Value {
			return f(p.intArg(a[0], pos, name), p.intArg(a[1], pos, name))
		})
	}
	intCmp("Equal", Eq)
	intCmp("GT", Gt)
	intCmp("GTE", Ge)
	intCmp("LT", Lt)
	intCmp("LTE", Le)
	intBin := func(name string, raw bool, f func(p *Path, x, y *Term, pos token.Pos) *Term) {
		reg("("+pkMath+".Int)."+name, func(p *Path, _ *frame, a []Value, pos token.Pos) Value {
			x := p.intArg(a[0], pos, name)
			var y *Term
			if raw {
				y = a[1].(*Term)
			} else {
				y = p.intArg(a[1], pos, name)
			}
			return p.mkInt(f(p, x, y, pos))
		})
	}
	addF := func(p *Path, x, y *Term, pos token.Pos) *Term {
		r := Add(x, y)
		p.checkBits(r, two256, pos, "Int.Add")
		return r
	}
	subF := func(p *Path, x, y *Term, pos token.Pos) *Term {
		r := Sub(x, y)
		p.checkBits(r, two256, pos, "Int.Sub")
		return r
	}
	mulF := func(p *Path, x, y *Term, pos token.Pos) *Term {
		r := Mul(x, y)
		p.checkBits(r, two256, pos, "Int.Mul")
		return r
	}
	quoF := func(p *Path, x, y *Term, pos token.Pos) *Term {
		p.panicIf(Eq(y, TInt64(0)), p.site(pos), "Int.Quo: Division by zero")
		return p.tdiv(x, y)
	}
	modF := func(p *Path, x, y *Term, pos token.Pos) *Term {
		p.panicIf(Eq(y, TInt64(0)), p.site(pos), "Int.Mod: division-by-zero")
		// big.Int.Mod is Euclidean
		if y.IsConst() || (y.lo != nil && y.lo.Sign() > 0) {
			return Mod(x, y)
		}
		return Mod(x, Abs(y))
	}
	intBin("Add", false, addF)
	intBin("AddRaw", true, addF)
	intBin("Sub", false, subF)
	intBin("SubRaw", true, subF)
	intBin("Mul", false, mulF)
	intBin("MulRaw", true, mulF)
	intBin("Quo", false, quoF)
	intBin("QuoRaw", true, quoF)
	intBin("Mod", false, modF)
	intBin("ModRaw", true, modF)
	reg("("+pkMath+".Int).Neg", func(p *Path, _ *frame, a []Value, pos token.Pos) Value {
		return p.mkInt(Neg(p.intArg(a[0], pos, "Neg")))
	})
	reg("("+pkMath+".Int).Abs", func(p *Path, _ *frame, a []Value, pos token.Pos) Value {
		return p.mkInt(Abs(p.intArg(a[0], pos, "Abs")))
	})
	reg(pkMath+".MinInt", func(p *Path, _ *frame, a []Value, pos token.Pos) Value {
		x, y := p.intArg(a[0], pos, "MinInt"), p.intArg(a[1], pos, "MinInt")
		return p.mkInt(Ite(Le(x, y), x, y))
	})
	reg(pkMath+".MaxInt", func(p *Path, _ *frame, a []Value, pos token.Pos) Value {
		x, y := p.intArg(a[0], pos, "MaxInt"), p.intArg(a[1], pos, "MaxInt")
		return p.mkInt(Ite(Ge(x, y), x, y))
	})

	// ------------------------------------------------------------ sdk.Dec
	reg(pkSDK+".ZeroDec", func(p *Path, _ *frame, a []Value, _ token.Pos) Value { return p.mkDec(TInt64(0)) })
	reg(pkSDK+".OneDec", func(p *Path, _ *frame, a []Value, _ token.Pos) Value { return p.mkDec(tPow18) })
	reg(pkSDK+".SmallestDec", func(p *Path, _ *frame, a []Value, _ token.Pos) Value { return p.mkDec(TInt64(1)) })
	reg(pkSDK+".NewDec", func(p *Path, _ *frame, a []Value, _ token.Pos) Value { return p.mkDec(Mul(a[0].(*Term), tPow18)) })
	reg(pkSDK+".NewDecFromInt", func(p *Path, _ *frame, a []Value, pos token.Pos) Value {
		return p.mkDec(Mul(p.intArg(a[0], pos, "NewDecFromInt"), tPow18))
	})
	reg(pkSDK+".NewDecWithPrec", func(p *Path, _ *frame, a []Value, pos token.Pos) Value {
		prec := a[1].(*Term)
		if !prec.IsConst() {
			p.unsupported("NewDecWithPrec symbolic precision")
		}
		pr := prec.i.Int64()
		if pr < 0 || pr > 18 {
			p.panicNow(p.site(pos), "NewDecWithPrec: too much precision", nil)
		}
		m := new(big.Int).Exp(big.NewInt(10), big.NewInt(18-pr), nil)
		return p.mkDec(Mul(a[0].(*Term), TInt(m)))
	})
	reg(pkSDK+".MustNewDecFromStr", func(p *Path, _ *frame, a []Value, pos token.Pos) Value {
		s := a[0].(*Term)
		if !s.IsConst() {
			p.unsupported("MustNewDecFromStr on symbolic string")
		}
		v, ok := parseDec(s.s)
		if !ok {
			p.panicNow(p.site(pos), "MustNewDecFromStr: invalid decimal "+s.s, nil)
		}
		return p.mkDec(TInt(v))
	})
	reg(pkSDK+".NewDecFromStr", func(p *Path, _ *frame, a []Value, pos token.Pos) Value {
		s := a[0].(*Term)
		if !s.IsConst() {
			p.unsupported("NewDecFromStr on symbolic string")
		}
		v, ok := parseDec(s.s)
		if !ok {
			return Tuple{DecV{Nil: true}, p.mkErr(TStr("invalid decimal string"), nil, pos)}
		}
		return Tuple{p.mkDec(TInt(v)), Iface{}}
	})
	reg("("+pkSDK+".Dec).IsNil", func(p *Path, _ *frame, a []Value, _ token.Pos) Value { return TBool(a[0].(DecV).Nil) })
	reg("("+pkSDK+".Dec).String", func(p *Path, _ *frame, a []Value, _ token.Pos) Value {
		dv := a[0].(DecV)
		if dv.Nil {
			return TStr("<nil>")
		}
		return p.decString(dv.V)
	})
	decPred := func(name string, f func(x *Term) *Term) {
		reg("("+pkSDK+".Dec)."+name, func(p *Path, _ *frame, a []Value, pos token.Pos) Value {
			return f(p.decArg(a[0], pos, name))
		})
	}
	decPred("IsZero", func(x *Term) *Term { return Eq(x, TInt64(0)) })
	decPred("IsNegative", func(x *Term) *Term { return Lt(x, TInt64(0)) })
	decPred("IsPositive", func(x *Term) *Term { return Gt(x, TInt64(0)) })
	decPred("IsInteger", func(x *Term) *Term { return Eq(Mod(x, tPow18), TInt64(0)) })
	decCmp := func(name string, f func(x, y *Term) *Term) {
		reg("("+pkSDK+".Dec)."+name, func(p *Path, _ *frame, a []Value, pos token.Pos) Value {
			return f(p.decArg(a[0], pos, name), p.decArg(a[1], pos, name))
		})
	}
	decCmp("Equal", Eq)
	decCmp("GT", Gt)
	decCmp("GTE", Ge)
	decCmp("LT", Lt)
	decCmp("LTE", Le)
	decUn := func(name string, f func(p *Path, x *Term, pos token.Pos) *Term) {
		reg("("+pkSDK+".Dec)."+name, func(p *Path, _ *frame, a []Value, pos token.Pos) Value {
			return p.mkDec(f(p, p.decArg(a[0], pos, name), pos))
		})
	}
	decUn("Neg", func(p *Path, x *Term, _ token.Pos) *Term { return Neg(x) })
	decUn("Abs", func(p *Path, x *Term, _ token.Pos) *Term { return Abs(x) })
	decUn("Clone", func(p *Path, x *Term, _ token.Pos) *Term { return x })
	decUn("TruncateDec", func(p *Path, x *Term, _ token.Pos) *Term { return Mul(p.chopTrunc(x), tPow18) })
	decUn("Ceil", func(p *Path, x *Term, _ token.Pos) *Term {
		q := p.chopTrunc(x)
		r := Sub(x, Mul(q, tPow18))
		return Mul(Add(q, Ite(Gt(r, TInt64(0)), TInt64(1), TInt64(0))), tPow18)
	})
	reg("("+pkSDK+".Dec).TruncateInt", func(p *Path, _ *frame, a []Value, pos token.Pos) Value {
		r := p.chopTrunc(p.decArg(a[0], pos, "TruncateInt"))
		p.checkBits(r, two256, pos, "TruncateInt")
		return p.mkInt(r)
	})
	reg("("+pkSDK+".Dec).RoundInt", func(p *Path, _ *frame, a []Value, pos token.Pos) Value {
		r := p.chopRound(p.decArg(a[0], pos, "RoundInt"))
		p.checkBits(r, two256, pos, "RoundInt")
		return p.mkInt(r)
	})
	reg("("+pkSDK+".Dec).TruncateInt64", func(p *Path, _ *frame, a []Value, pos token.Pos) Value {
		r := p.chopTrunc(p.decArg(a[0], pos, "TruncateInt64"))
		p.panicIf(Not(And(Ge(r, TInt(minInt64)), Le(r, TInt(maxInt64)))), p.site(pos), "Int64() out of bound")
		return r
	})
	reg("("+pkSDK+".Dec).RoundInt64", func(p *Path, _ *frame, a []Value, pos token.Pos) Value {
		r := p.chopRound(p.decArg(a[0], pos, "RoundInt64"))
		p.panicIf(Not(And(Ge(r, TInt(minInt64)), Le(r, TInt(maxInt64)))), p.site(pos), "Int64() out of bound")
		return r
	})
	decBin := func(name string, kind int, f func(p *Path, x, y *Term, pos token.Pos) *Term) {
		reg("("+pkSDK+".Dec)."+name, func(p *Path, _ *frame, a []Value, pos token.Pos) Value {
			x := p.decArg(a[0], pos, name)
			var y *Term
			switch kind {
			case 0:
				y = p.decArg(a[1], pos, name)
			case 1:
				y = p.intArg(a[1], pos, name)
			default:
				y = a[1].(*Term)
			}
			return p.mkDec(f(p, x, y, pos))
		})
	}
	decBin("Add", 0, func(p *Path, x, y *Term, pos token.Pos) *Term {
		r := Add(x, y)
		p.checkBits(r, two315, pos, "Dec.Add")
		return r
	})
	decBin("Sub", 0, func(p *Path, x, y *Term, pos token.Pos) *Term {
		r := Sub(x, y)
		p.checkBits(r, two315, pos, "Dec.Sub")
		return r
	})
	decBin("Mul", 0, func(p *Path, x, y *Term, pos token.Pos) *Term {
		r := p.chopRound(Mul(x, y))
		p.checkBits(r, two315, pos, "Dec.Mul")
		return r
	})
	decBin("MulTruncate", 0, func(p *Path, x, y *Term, pos token.Pos) *Term {
		r := p.chopTrunc(Mul(x, y))
		p.checkBits(r, two315, pos, "Dec.MulTruncate")
		return r
	})
	mulInt := func(p *Path, x, y *Term, pos token.Pos) *Term {
		r := Mul(x, y)
		p.checkBits(r, two315, pos, "Dec.MulInt")
		return r
	}
	decBin("MulInt", 1, mulInt)
	decBin("MulInt64", 2, mulInt)
	decBin("Quo", 0, func(p *Path, x, y *Term, pos token.Pos) *Term {
		p.panicIf(Eq(y, TInt64(0)), p.site(pos), "Dec.Quo: division by zero")
		r := p.chopRound(p.tdiv(Mul(x, TInt(new(big.Int).Mul(pow18, pow18))), y))
		p.checkBits(r, two315, pos, "Dec.Quo")
		return r
	})
	decBin("QuoTruncate", 0, func(p *Path, x, y *Term, pos token.Pos) *Term {
		p.panicIf(Eq(y, TInt64(0)), p.site(pos), "Dec.QuoTruncate: division by zero")
		r := p.chopTrunc(p.tdiv(Mul(x, TInt(new(big.Int).Mul(pow18, pow18))), y))
		p.checkBits(r, two315, pos, "Dec.QuoTruncate")
		return r
	})
	quoInt := func(p *Path, x, y *Term, pos token.Pos) *Term {
		p.panicIf(Eq(y, TInt64(0)), p.site(pos), "Dec.QuoInt: division by zero")
		return p.tdiv(x, y)
	}
	decBin("QuoInt", 1, quoInt)
	decBin("QuoInt64", 2, quoInt)
	reg(pkSDK+".MinDec", func(p *Path, _ *frame, a []Value, pos token.Pos) Value {
		x, y := p.decArg(a[0], pos, "MinDec"), p.decArg(a[1], pos, "MinDec")
		return p.mkDec(Ite(Lt(x, y), x, y))
	})
	reg(pkSDK+".MaxDec", func(p *Path, _ *frame, a []Value, pos token.Pos) Value {
		x, y := p.decArg(a[0], pos, "MaxDec"), p.decArg(a[1], pos, "MaxDec")
		return p.mkDec(Ite(Lt(x, y), y, x))
	})

	// ------------------------------------------------------------ denominations / addresses
	reg(pkSDK+".ValidateDenom", func(p *Path, _ *frame, a []Value, pos token.Pos) Value {
		s := a[0].(*Term)
		var ok *Term
		if s.IsConst() {
			ok = TBool(reDenom.MatchString(s.s))
		} else if pool := p.poolOf(s); pool != nil {
			ok = TBool(reDenom.MatchString(p.concretizeStr(s, "denom")))
		} else {
			ok = TUF("valid_denom", SBool, s)
		}
		if p.branch(ok) {
			return Iface{}
		}
		return p.mkErr(Concat(TStr("invalid denom: "), s), nil, pos)
	})

	// ------------------------------------------------------------ strings / strconv / fmt
	reg("strconv.Itoa", func(p *Path, _ *frame, a []Value, _ token.Pos) Value { return p.intString(a[0].(*Term)) })
	reg("strconv.FormatInt", func(p *Path, _ *frame, a []Value, _ token.Pos) Value { return p.intString(a[0].(*Term)) })
	reg("strconv.FormatBool", func(p *Path, _ *frame, a []Value, _ token.Pos) Value {
		return Ite(a[0].(*Term), TStr("true"), TStr("false"))
	})
	reg("strings.HasPrefix", func(p *Path, _ *frame, a []Value, _ token.Pos) Value {
		return StrPrefixOf(a[1].(*Term), a[0].(*Term))
	})
	reg("strings.TrimSpace", func(p *Path, _ *frame, a []Value, _ token.Pos) Value {
		s := a[0].(*Term)
		if s.IsConst() {
			return TStr(strings.TrimSpace(s.s))
		}
		return TUF("trimspace", SString, s)
	})
	reg("strings.ToLower", func(p *Path, _ *frame, a []Value, _ token.Pos) Value {
		s := a[0].(*Term)
		if s.IsConst() {
			return TStr(strings.ToLower(s.s))
		}
		return TUF("tolower", SString, s)
	})
	reg("strings.Contains", func(p *Path, _ *frame, a []Value, _ token.Pos) Value {
		s, sub := a[0].(*Term), a[1].(*Term)
		if s.IsConst() && sub.IsConst() {
			return TBool(strings.Contains(s.s, sub.s))
		}
		return TUF("str_contains", SBool, s, sub)
	})
	reg("bytes.Equal", func(p *Path, _ *frame, a []Value, _ token.Pos) Value {
		return Eq(p.bytesToTerm(a[0]), p.bytesToTerm(a[1]))
	})
	reg("bytes.HasPrefix", func(p *Path, _ *frame, a []Value, _ token.Pos) Value {
		return StrPrefixOf(p.bytesToTerm(a[1]), p.bytesToTerm(a[0]))
	})
	sprintf := func(p *Path, _ *frame, a []Value, pos token.Pos) Value { return p.formatUF("fmt", a) }
	regs([]string{"fmt.Sprintf", "fmt.Sprint", "fmt.Sprintln"}, sprintf)
	regs([]string{"fmt.Println", "fmt.Printf", "fmt.Print"}, func(p *Path, _ *frame, a []Value, pos token.Pos) Value {
		return Tuple{TInt64(0), Iface{}}
	})

	// ------------------------------------------------------------ errors
	reg("fmt.Errorf", func(p *Path, _ *frame, a []Value, pos token.Pos) Value {
		// %w wrapping: remember the first error argument as cause
		var cause *ErrObj
		if len(a) > 1 {
			if sl, ok := a[1].(SliceV); ok {
				for _, x := range sl.A {
					if iv, ok := x.(Iface); ok {
						if eo, ok := iv.V.(*ErrObj); ok && cause == nil {
							cause = eo
						}
					}
				}
			}
		}
		return p.mkErr(p.formatUF("errorf", a), cause, pos)
	})
	reg("errors.New", func(p *Path, _ *frame, a []Value, pos token.Pos) Value { return p.mkErr(a[0].(*Term), nil, pos) })
	regErr := func(p *Path, _ *frame, a []Value, pos token.Pos) Value {
		// Register(codespace, code, description) *Error
		eo := &ErrObj{Msg: a[2].(*Term), Site: p.site(pos)}
		eo.Root = eo
		eo.ID = int(a[1].(*Term).i.Int64())
		return eo
	}
	regs([]string{"cosmossdk.io/errors.Register", "cosmossdk.io/errors.RegisterWithGRPCCode", pkSDK + "/errors.Register"}, regErr)
	wrap := func(p *Path, _ *frame, a []Value, pos token.Pos) Value {
		e := a[0]
		if iv, ok := e.(Iface); ok {
			if iv.T == nil {
				return Iface{}
			}
			e = iv.V
		}
		eo, _ := e.(*ErrObj)
		if eo == nil {
			if e == nil {
				return Iface{}
			}
			// foreign error value (e.g. a struct implementing error): wrap opaquely
			return p.mkErr(TStr("wrapped foreign error"), nil, pos)
		}
		var msg *Term
		if len(a) > 2 {
			msg = p.formatUF("wrapf", a[1:])
		} else {
			msg = a[1].(*Term)
		}
		ne := &ErrObj{Msg: Concat(msg, TStr(": "), eo.Msg), Cause: eo, Root: eo.Root, Site: p.site(pos), ID: p.newID()}
		return Iface{T: errorNamed, V: ne}
	}
	regs([]string{"cosmossdk.io/errors.Wrap", "cosmossdk.io/errors.Wrapf", pkSDK + "/errors.Wrap", pkSDK + "/errors.Wrapf",
		"github.com/pkg/errors.Wrap", "github.com/pkg/errors.Wrapf"}, wrap)
	regs([]string{"(*cosmossdk.io/errors.Error).Wrap", "(*cosmossdk.io/errors.Error).Wrapf"}, func(p *Path, fr *frame, a []Value, pos token.Pos) Value {
		if eo, ok := a[0].(*ErrObj); ok && eo == nil || a[0] == nil {
			p.panicNow(p.site(pos), "Wrap on nil *Error", nil)
		}
		return wrap(p, fr, a, pos)
	})
	reg("(*cosmossdk.io/errors.Error).Error", func(p *Path, fr *frame, a []Value, pos token.Pos) Value {
		return a[0].(*ErrObj).Msg
	})
	isOf := func(p *Path, _ *frame, a []Value, pos token.Pos) Value {
		e := unwrapErr(a[0])
		if e == nil {
			return TFalse
		}
		var targets []Value
		if sl, ok := a[1].(SliceV); ok {
			targets = sl.A
		} else {
			targets = []Value{a[1]}
		}
		for _, t := range targets {
			te := unwrapErr(t)
			for c := e; c != nil; c = c.Cause {
				if te != nil && (c == te || (c.Root != nil && c.Root == te.Root)) {
					return TTrue
				}
			}
		}
		return TFalse
	}
	regs([]string{"cosmossdk.io/errors.IsOf", "errors.Is", pkSDK + "/errors.IsOf"}, isOf)
	regs([]string{"google.golang.org/grpc/status.Error", "google.golang.org/grpc/status.Errorf"}, func(p *Path, _ *frame, a []Value, pos token.Pos) Value {
		var msg *Term
		if len(a) > 2 {
			msg = p.formatUF("statusf", a[1:])
		} else {
			msg = a[1].(*Term)
		}
		return p.mkErr(msg, nil, pos)
	})

	// ------------------------------------------------------------ sort
	reg("sort.Sort", func(p *Path, fr *frame, a []Value, pos token.Pos) Value {
		iv := a[0].(Iface)
		call := func(name string, args ...Value) Value {
			f := p.eng.prog.LookupMethod(iv.T, nil, name)
			if f == nil {
				p.unsupported("sort.Sort: no method %s on %s", name, iv.T)
			}
			return p.callFunc(fr, f, append([]Value{iv.V}, args...), nil, pos)
		}
		n := call("Len").(*Term)
		if !n.IsConst() {
			p.unsupported("sort.Sort on symbolic length")
		}
		ln := n.i.Int64()
		// insertion sort (stable; sort.Sort makes no stability promise, callers must not rely on order of equal elements)
		for i := int64(1); i < ln; i++ {
			for j := i; j > 0; j-- {
				less := call("Less", TInt64(j), TInt64(j-1)).(*Term)
				if !p.branch(less) {
					break
				}
				call("Swap", TInt64(j), TInt64(j-1))
			}
		}
		return nil
	})

	// ------------------------------------------------------------ misc no-ops
	noop := func(p *Path, _ *frame, a []Value, pos token.Pos) Value { return nil }
	regs([]string{
		"github.com/cosmos/cosmos-sdk/telemetry.ModuleMeasureSince",
		"github.com/cosmos/cosmos-sdk/telemetry.SetGaugeWithLabels",
		"github.com/cosmos/cosmos-sdk/telemetry.SetGauge",
		"github.com/cosmos/cosmos-sdk/telemetry.IncrCounter",
		"github.com/cosmos/cosmos-sdk/telemetry.IncrCounterWithLabels",
		"github.com/cosmos/cosmos-sdk/telemetry.MeasureSince",
	}, noop)
	reg("github.com/cosmos/cosmos-sdk/telemetry.NewLabel", func(p *Path, _ *frame, a []Value, pos token.Pos) Value {
		return Struct{a[0], a[1]}
	})
}

func unwrapErr(v Value) *ErrObj {
	if iv, ok := v.(Iface); ok {
		if iv.T == nil {
			return nil
		}
		v = iv.V
	}
	eo, _ := v.(*ErrObj)
	return eo
}

func (p *Path) mkErr(msg *Term, cause *ErrObj, pos token.Pos) Value {
	eo := &ErrObj{Msg: msg, Cause: cause, Site: p.site(pos), ID: p.newID()}
	if cause != nil {
		eo.Root = cause.Root
	}
	return Iface{T: errorNamed, V: eo}
}

// injective uninterpreted rendering of integers
func (p *Path) intString(x *Term) *Term {
	if x.IsConst() {
		return TStr(x.i.String())
	}
	return p.ufApp("int_str", SString, true, x)
}

func (p *Path) decString(x *Term) *Term {
	if x.IsConst() {
		return TStr(formatDec(x.i))
	}
	return p.ufApp("dec_str", SString, true, x)
}

func formatDec(v *big.Int) string {
	neg := v.Sign() < 0
	a := new(big.Int).Abs(v)
	q, r := new(big.Int).QuoRem(a, pow18, new(big.Int))
	s := fmt.Sprintf("%s.%018s", q.String(), r.String())
	if neg {
		s = "-" + s
	}
	return s
}

func parseDec(s string) (*big.Int, bool) {
	if s == "" {
		return nil, false
	}
	neg := false
	if s[0] == '-' {
		neg = true
		s = s[1:]
	}
	if s == "" {
		return nil, false
	}
	parts := strings.Split(s, ".")
	if len(parts) > 2 {
		return nil, false
	}
	ip := parts[0]
	fp := ""
	if len(parts) == 2 {
		fp = parts[1]
		if fp == "" {
			return nil, false
		}
	}
	if len(fp) > 18 {
		return nil, false
	}
	for _, c := range ip + fp {
		if c < '0' || c > '9' {
			return nil, false
		}
	}
	if ip == "" {
		return nil, false
	}
	fp = fp + strings.Repeat("0", 18-len(fp))
	v, ok := new(big.Int).SetString(ip+fp, 10)
	if !ok {
		return nil, false
	}
	if neg {
		v.Neg(v)
	}
	return v, true
}

// ufApp builds an uninterpreted application; for injective functions the pairwise axioms
// against earlier applications on this path are assumed.
func (p *Path) ufApp(name string, sort Sort, injective bool, args ...*Term) *Term {
	t := TUF(name, sort, args...)
	if injective {
		for _, o := range p.ufApps[name] {
			if o == t {
				return t
			}
		}
		for _, o := range p.ufApps[name] {
			eq := TTrue
			for i := range args {
				eq = And(eq, Eq(args[i], o.args[i]))
			}
			p.assume(Implies(Eq(t, o), eq))
		}
		p.ufApps[name] = append(p.ufApps[name], t)
	}
	return t
}

// formatUF renders a formatting call as an uninterpreted function of its scalar arguments.
// args[0] is the format (or first operand), args[1] the variadic slice (if present).
func (p *Path) formatUF(kind string, a []Value) *Term {
	var flat []*Term
	var add func(v Value)
	add = func(v Value) {
		switch v := v.(type) {
		case *Term:
			flat = append(flat, v)
		case IntV:
			if !v.Nil {
				flat = append(flat, v.V)
			}
		case DecV:
			if !v.Nil {
				flat = append(flat, v.V)
			}
		case TimeV:
			flat = append(flat, v.NS)
		case Iface:
			if v.T != nil {
				add(v.V)
			}
		case SliceV:
			for _, x := range v.A {
				add(x)
			}
		case Struct:
			for _, x := range v {
				add(x)
			}
		case *ErrObj:
			if v != nil {
				flat = append(flat, v.Msg)
			}
		case BytesV:
			flat = append(flat, v.S)
		}
	}
	for _, x := range a {
		add(x)
	}
	allConst := true
	for _, t := range flat {
		if !t.IsConst() {
			allConst = false
		}
	}
	if allConst {
		var sb strings.Builder
		for i, t := range flat {
			if i > 0 {
				sb.WriteByte('|')
			}
			sb.WriteString(smtConst(t))
		}
		return TStr(sb.String())
	}
	var sorts []string
	for _, t := range flat {
		sorts = append(sorts, t.sort.String()[:1])
	}
	return TUF(kind+"_"+strings.Join(sorts, ""), SString, flat...)
}

var _ = strconv.Itoa
var _ = types.Typ

func init() {
	reg("github.com/gogo/protobuf/proto.Marshal", func(p *Path, _ *frame, a []Value, pos token.Pos) Value {
		iv := a[0].(Iface)
		if iv.T == nil {
			return Tuple{SliceV{}, p.mkErr(TStr("proto: Marshal called with nil"), nil, pos)}
		}
		return Tuple{BlobV{Msg: p.normalize(iv.V, iv.T, 0), Type: iv.T, ID: p.newID()}, Iface{}}
	})
	reg("github.com/gogo/protobuf/proto.MessageName", func(p *Path, _ *frame, a []Value, pos token.Pos) Value {
		iv := a[0].(Iface)
		if iv.T == nil {
			return TStr("")
		}
		return TStr(protoName(iv.T))
	})
}

// protoName: surrogate for the registered protobuf message name (unique per Go type).
func protoName(t types.Type) string {
	s := deref(t).String()
	s = strings.TrimPrefix(s, "github.com/")
	return strings.ReplaceAll(s, "/", ".")
}

func init() {
	regs([]string{"github.com/gogo/protobuf/proto.CompactTextString", "github.com/gogo/protobuf/proto.MarshalTextString"}, func(p *Path, _ *frame, a []Value, pos token.Pos) Value {
		iv, ok := a[0].(Iface)
		if ok && iv.T != nil {
			if ptr, ok := iv.V.(*Value); ok && ptr != nil {
				return p.formatUF("prototext", []Value{*ptr})
			}
		}
		return TStr("<nil>")
	})
	reg("gopkg.in/yaml.v2.Marshal", func(p *Path, _ *frame, a []Value, pos token.Pos) Value {
		var s *Term = TStr("yaml")
		if iv, ok := a[0].(Iface); ok && iv.T != nil {
			if ptr, ok := iv.V.(*Value); ok && ptr != nil {
				s = p.formatUF("yaml", []Value{*ptr})
			} else {
				s = p.formatUF("yaml", []Value{iv.V})
			}
		}
		return Tuple{BytesV{s}, Iface{}}
	})
}

// ---------------------------------------------------------------- addresses
// Model: the bech32 rendering of address bytes b is "c4e:" + b (bytes read as a string). Both directions are
// intrinsics, so only consistency matters; replay drivers map model addresses to real bech32 strings.
const addrPrefix = "c4e:"

func (p *Path) addrString(v Value) *Term {
	var b *Term
	switch x := v.(type) {
	case SliceV:
		b = p.bytesTerm(x)
	case BytesV:
		b = x.S
	default:
		p.unsupported("address of %T", v)
	}
	if b.op == "uf" && b.name == "unbech" {
		return b.args[0]
	}
	if b.IsConst() && strings.HasPrefix(b.s, "c4e1") && len(b.s) == 42 {
		return b
	}
	return Concat(TStr(addrPrefix), b)
}

func init() {
	reg("("+pkSDK+".AccAddress).String", func(p *Path, _ *frame, a []Value, pos token.Pos) Value {
		if sl, ok := a[0].(SliceV); ok && len(sl.A) == 0 {
			return TStr("")
		}
		return p.addrString(a[0])
	})
	fromBech := func(p *Path, a []Value, pos token.Pos) (Value, *Term) {
		s := a[0].(*Term)
		if !s.IsConst() && p.poolOf(s) != nil {
			s = TStr(p.concretizeStr(s, "bech32 address"))
		}
		if s.IsConst() {
			if strings.HasPrefix(s.s, "c4e1") && len(s.s) == 42 {
				// a real bech32 literal from the source (hard-coded upgrade addresses): valid, bytes kept opaque as the literal itself
				return p.conv(types.NewSlice(types.Typ[types.Uint8]), types.Typ[types.String], s), TTrue
			}
			if strings.HasPrefix(s.s, addrPrefix) && len(s.s) > len(addrPrefix) && len(s.s) <= len(addrPrefix)+255 {
				return p.conv(types.NewSlice(types.Typ[types.Uint8]), types.Typ[types.String], TStr(s.s[len(addrPrefix):])), TTrue
			}
			return SliceV{}, TFalse
		}
		ok := p.ufApp("valid_bech32", SBool, false, s)
		return BytesV{p.ufApp("unbech", SString, true, s)}, ok
	}
	reg(pkSDK+".AccAddressFromBech32", func(p *Path, _ *frame, a []Value, pos token.Pos) Value {
		v, ok := fromBech(p, a, pos)
		if p.branch(ok) {
			return Tuple{v, Iface{}}
		}
		return Tuple{SliceV{}, p.mkErr(TStr("invalid bech32 address"), nil, pos)}
	})
	reg(pkSDK+".MustAccAddressFromBech32", func(p *Path, _ *frame, a []Value, pos token.Pos) Value {
		v, ok := fromBech(p, a, pos)
		p.panicIf(Not(ok), p.site(pos), "MustAccAddressFromBech32: invalid address")
		return v
	})
	reg(pkSDK+".VerifyAddressFormat", func(p *Path, _ *frame, a []Value, pos token.Pos) Value {
		var n *Term
		switch x := a[0].(type) {
		case SliceV:
			n = TInt64(int64(len(x.A)))
		case BytesV:
			n = StrLen(x.S)
		default:
			p.unsupported("VerifyAddressFormat of %T", a[0])
		}
		if p.branch(And(Gt(n, TInt64(0)), Le(n, TInt64(255)))) {
			return Iface{}
		}
		return p.mkErr(TStr("address length invalid"), nil, pos)
	})
}

// ---------------------------------------------------------------- encoding/binary
func init() {
	put := func(n int, little bool) intrinsicFn {
		return func(p *Path, _ *frame, a []Value, pos token.Pos) Value {
			sl, ok := a[1].(SliceV)
			if !ok {
				p.unsupported("binary.Put on %T", a[1])
			}
			if len(sl.A) < n {
				p.panicNow(p.site(pos), "binary.PutUint: index out of range", nil)
			}
			v := a[2].(*Term)
			for i := 0; i < n; i++ {
				b := Mod(Div(v, TInt(new(big.Int).Lsh(bigOne, uint(8*i)))), TInt64(256))
				if little {
					sl.A[i] = b
				} else {
					sl.A[n-1-i] = b
				}
			}
			return nil
		}
	}
	get := func(n int, little bool) intrinsicFn {
		return func(p *Path, _ *frame, a []Value, pos token.Pos) Value {
			sl, ok := a[1].(SliceV)
			if !ok {
				p.unsupported("binary.Uint on %T", a[1])
			}
			if len(sl.A) < n {
				p.panicNow(p.site(pos), "binary.Uint: index out of range", nil)
			}
			r := TInt64(0)
			for i := 0; i < n; i++ {
				var b *Term
				if little {
					b = sl.A[i].(*Term)
				} else {
					b = sl.A[n-1-i].(*Term)
				}
				r = Add(r, Mul(TInt(new(big.Int).Lsh(bigOne, uint(8*i))), b))
			}
			return r
		}
	}
	reg("(encoding/binary.littleEndian).PutUint32", put(4, true))
	reg("(encoding/binary.littleEndian).PutUint64", put(8, true))
	reg("(encoding/binary.littleEndian).PutUint16", put(2, true))
	reg("(encoding/binary.bigEndian).PutUint32", put(4, false))
	reg("(encoding/binary.bigEndian).PutUint64", put(8, false))
	reg("(encoding/binary.bigEndian).PutUint16", put(2, false))
	reg("(encoding/binary.littleEndian).Uint32", get(4, true))
	reg("(encoding/binary.littleEndian).Uint64", get(8, true))
	reg("(encoding/binary.bigEndian).Uint32", get(4, false))
	reg("(encoding/binary.bigEndian).Uint64", get(8, false))
}

func init() {
	reg("("+pkMath+".Int).BigInt", func(p *Path, _ *frame, a []Value, _ token.Pos) Value {
		if a[0].(IntV).Nil {
			return (*Value)(nil)
		}
		c := new(Value)
		*c = Poison{"big.Int"}
		return c
	})
	reg("("+pkSDK+".Dec).BigInt", func(p *Path, _ *frame, a []Value, _ token.Pos) Value {
		if a[0].(DecV).Nil {
			return (*Value)(nil)
		}
		c := new(Value)
		*c = Poison{"big.Int"}
		return c
	})
}

func init() {
	reg("github.com/cosmos/cosmos-sdk/store/prefix.cloneAppend", func(p *Path, _ *frame, a []Value, _ token.Pos) Value {
		// fresh slice holding bz followed by tail
		if s, ok := a[0].(SliceV); ok {
			c := make([]Value, len(s.A))
			copy(c, s.A)
			return p.appendOp(SliceV{c}, a[1])
		}
		return p.appendOp(a[0], a[1])
	})
}

func init() {
	reg("strings.Compare", func(p *Path, _ *frame, a []Value, _ token.Pos) Value {
		x, y := a[0].(*Term), a[1].(*Term)
		return Ite(Eq(x, y), TInt64(0), Ite(StrLt(x, y), TInt64(-1), TInt64(1)))
	})
	strOf := func(kind string) intrinsicFn {
		return func(p *Path, _ *frame, a []Value, _ token.Pos) Value { return p.formatUF(kind, a[:1]) }
	}
	reg("("+pkSDK+".Coin).String", strOf("coin_str"))
	reg("("+pkSDK+".Coins).String", strOf("coins_str"))
	reg("("+pkSDK+".DecCoin).String", strOf("deccoin_str"))
	reg("("+pkSDK+".DecCoins).String", strOf("deccoins_str"))
}

func init() {
	regs([]string{"(cosmossdk.io/errors.Error).Error", "(*cosmossdk.io/errors.Error).Error"}, func(p *Path, fr *frame, a []Value, pos token.Pos) Value {
		eo, _ := a[0].(*ErrObj)
		if eo == nil {
			p.panicNow(p.site(pos), "Error() on nil *errors.Error", nil)
		}
		return eo.Msg
	})
}

func init() {
	// AddDate is calendar arithmetic: kept uninterpreted (a function of the instant and the three offsets)
	reg("(time.Time).AddDate", func(p *Path, _ *frame, a []Value, _ token.Pos) Value {
		y, m, d := a[1].(*Term), a[2].(*Term), a[3].(*Term)
		if y.IsConst() && m.IsConst() && d.IsConst() && y.i.Sign() == 0 && m.i.Sign() == 0 && d.i.Sign() == 0 {
			return a[0]
		}
		return TimeV{p.ufApp("time_adddate", SInt, false, a[0].(TimeV).NS, y, m, d)}
	})
}
