package main

// Forking symbolic executor for go/ssa. Paths are explored by deterministic re-execution
// with a decision prefix; every symbolic branch is a decision.

import (
	"fmt"
	"go/token"
	"go/types"
	"math/big"
	"os"
	"sort"
	"strings"
	"sync"
	"sync/atomic"
	"time"

	"golang.org/x/tools/go/ssa"
)

type pathAbort struct {
	kind string // "infeasible", "unsupported", "limit", "done"
	msg  string
}

type progPanic struct {
	val   Value
	site  string
	msg   string
	stack []string
}

type deferred struct {
	fn   Value
	args []Value
	pos  token.Pos
}

type frame struct {
	fn        *ssa.Function
	env       map[ssa.Value]Value
	block     *ssa.BasicBlock
	prev      *ssa.BasicBlock
	defers    []deferred
	result    Value
	caller    *frame
	panicking bool
	panicVal  *progPanic
	symLoop   map[ssa.Instruction]int
}

type Obligation struct {
	Harness  string            `json:"harness"`
	Label    string            `json:"label"`
	Kind     string            `json:"kind"` // assert | panic
	Site     string            `json:"site,omitempty"`
	Verdict  string            `json:"verdict"` // unsat(discharged) | sat | unknown | trivial
	Model    map[string]string `json:"model,omitempty"`
	Path     []int             `json:"path,omitempty"`
	Msg      string            `json:"msg,omitempty"`
	TimeMS   int64             `json:"time_ms,omitempty"`
	Finding  string            `json:"finding,omitempty"`
	Stack    []string          `json:"stack,omitempty"`
	QueryOut string            `json:"query_file,omitempty"`
}

type ReachRec struct {
	Harness string            `json:"harness"`
	Label   string            `json:"label"`
	Model   map[string]string `json:"model,omitempty"`
	Path    []int             `json:"path,omitempty"`
}

type Path struct {
	eng       *Engine
	w         *Worker
	harness   string
	prefix    []int
	decisions []int
	pos       int
	pc        []*Term
	globals   map[*ssa.Global]*Value
	pkgInit   map[*ssa.Package]bool
	steps     int64
	depth     int
	fresh     int
	lenient   int
	ufApps    map[string][]*Term
	pools     map[string][]string
	unroll    int
	knobs     map[string]int64
	findings  map[string]bool
	top       *frame
	notes     []string
	allocID   int
	world     map[string]Value // engine-side per-path registry (named handles)
	assertTO  int
	initLock  bool
	tags      []string
	solverGen int
	known     map[int]bool
	model     map[string]*Term
	modelMemo map[int]*Term
	choiceSeen map[string]bool
	proved    map[int]int8
	divs      []divRec
	divCache  map[string]*Term
	subst     map[*Term]*Term
	substMemo map[int]*Term
}

type Worker struct {
	id   int
	inc  *Solver // incremental: mirrors the path condition
	one  *Solver // one-shot: final obligations
	one2 *Solver // optional second solver for cross-checking
}

type Engine struct {
	prog       *ssa.Program
	fset       *token.FileSet
	models     map[string]*ssa.Function
	harnessPkg *ssa.Package
	execPrefix []string
	cfg        Config

	mu          sync.Mutex
	obligations []Obligation
	reaches     []ReachRec
	emits       []EmitRec
	aborts      map[string]int
	pathsDone   int64
	pathsInfeas int64
	reachSeen   map[string]int
	queue       [][]int
	active      int
	cond        *sync.Cond
	funcsSeen   map[string]bool
	assumes     map[string]bool
	pristineMu  sync.Mutex
	pristine    map[*ssa.Package]map[*ssa.Global]*Value
	violations  int64
	untagged    int64
	panicChecks int64
	forkSites   map[string]int
	startPrefix []int
	noFork      bool
	stop        int32
}

type Config struct {
	FeasTimeoutMS   int
	AssertTimeoutMS int
	MaxSteps        int64
	MaxPaths        int64
	MaxViolations   int64
	Unroll          int
	Workers         int
	Verbose         int
	CrossCheck      bool
	DumpDir         string
	PermuteMaps     bool
	StopOnViolation bool
	Tier            int
}

func (e *Engine) note(kind, msg string) {
	e.mu.Lock()
	e.aborts[kind+": "+msg]++
	e.mu.Unlock()
}

// ---------------------------------------------------------------- path control

func (p *Path) abort(kind, format string, args ...interface{}) {
	panic(pathAbort{kind, fmt.Sprintf(format, args...)})
}

func (p *Path) unsupported(format string, args ...interface{}) {
	if p.lenient > 0 {
		panic(pathAbort{"lenient", fmt.Sprintf(format, args...)})
	}
	msg := fmt.Sprintf(format, args...)
	if p.top != nil {
		msg += " @ " + p.where()
	}
	panic(pathAbort{"unsupported", msg})
}

func (p *Path) where() string {
	var parts []string
	for fr := p.top; fr != nil && len(parts) < 6; fr = fr.caller {
		parts = append(parts, fr.fn.Name())
	}
	return strings.Join(parts, " < ")
}

func (p *Path) stack() []string {
	var parts []string
	for fr := p.top; fr != nil && len(parts) < 12; fr = fr.caller {
		parts = append(parts, fr.fn.String())
	}
	return parts
}

// assume adds c to the path condition; aborts the path if it becomes trivially false.
func (p *Path) assume(c *Term) {
	if c == TTrue {
		return
	}
	if c == TFalse {
		p.abort("infeasible", "assume false")
	}
	p.ensureSync() // never assert into a freshly restarted solver below the path's own frame
	p.pc = append(p.pc, c)
	p.w.inc.Assert(c)
	p.noteKnown(c, true)
	if p.model != nil && evalTerm(c, p.model, p.modelMemo) != TTrue {
		p.model = nil // the cached model does not (provably) satisfy the new conjunct
	}
	p.learnEq(c)
}

func (p *Path) noteKnown(c *Term, v bool) {
	if p.known == nil {
		p.known = map[int]bool{}
	}
	p.known[c.id] = v
	switch {
	case c.op == "not":
		p.noteKnown(c.args[0], !v)
	case c.op == "and" && v:
		for _, a := range c.args {
			p.noteKnown(a, true)
		}
	case c.op == "or" && !v:
		for _, a := range c.args {
			p.noteKnown(a, false)
		}
	}
}

// learnEq records x ↦ e when the path assumes an integer equality that can be solved for a symbol x with
// coefficient ±1. The substitution is only used to simplify later conditions syntactically (sound: it is implied by pc).
func (p *Path) learnEq(c *Term) {
	if c.op == "and" {
		for _, a := range c.args {
			p.learnEq(a)
		}
		return
	}
	if c.op != "=" || c.args[0].sort != SInt {
		return
	}
	d := toLin(p.substitute(Sub(c.args[0], c.args[1])))
	for i, at := range d.atoms {
		if at.op != "sym" || strings.Contains(at.name, "!") {
			continue
		}
		co := d.coefs[i]
		if co.CmpAbs(bigOne) != 0 {
			continue
		}
		rest := linform{k: d.k}
		for j := range d.atoms {
			if j != i {
				rest.atoms = append(rest.atoms, d.atoms[j])
				rest.coefs = append(rest.coefs, d.coefs[j])
			}
		}
		e := fromLin(rest)
		if co.Sign() > 0 {
			e = Neg(e)
		}
		if occurs(at, e) {
			continue
		}
		if p.subst == nil {
			p.subst = map[*Term]*Term{}
		}
		p.subst[at] = e
		p.substMemo = nil
		return
	}
}

func occurs(x, t *Term) bool {
	if x == t {
		return true
	}
	for _, a := range t.args {
		if occurs(x, a) {
			return true
		}
	}
	return false
}

func (p *Path) substitute(t *Term) *Term {
	if len(p.subst) == 0 {
		return t
	}
	if p.substMemo == nil {
		p.substMemo = map[int]*Term{}
	}
	return p.substRec(t, 0)
}

func (p *Path) substRec(t *Term, depth int) *Term {
	if r, ok := p.substMemo[t.id]; ok {
		return r
	}
	var r *Term
	switch t.op {
	case "const":
		r = t
	case "sym":
		if e, ok := p.subst[t]; ok && depth < 50 {
			r = p.substRec(e, depth+1)
		} else {
			r = t
		}
	default:
		changed := false
		args := make([]*Term, len(t.args))
		for i, a := range t.args {
			args[i] = p.substRec(a, depth)
			if args[i] != a {
				changed = true
			}
		}
		if changed {
			r = rebuild(t, args)
		} else {
			r = t
		}
	}
	p.substMemo[t.id] = r
	return r
}

// feasible asks the incremental solver whether pc ∧ c is satisfiable. unknown counts as feasible.
// ensureSync re-asserts the whole path condition after the incremental solver process had to be restarted.
func (p *Path) ensureSync() {
	s := p.w.inc
	if s.gen == p.solverGen {
		return
	}
	p.solverGen = s.gen
	s.Push()
	for _, c := range p.pc {
		s.Assert(c)
	}
}

func (p *Path) feasible(c *Term) bool {
	if c == TTrue {
		return true
	}
	if c == TFalse {
		return false
	}
	p.ensureSync()
	// a model of the current path condition that also satisfies c witnesses feasibility without a query
	if p.model != nil {
		if evalTerm(c, p.model, p.modelMemo) == TTrue {
			atomic.AddInt64(&statModelHits, 1)
			return true
		}
	}
	s := p.w.inc
	s.Push()
	s.Assert(c)
	r := s.Check(p.eng.cfg.FeasTimeoutMS)
	if r == "sat" && p.knobs["model_cache"] != 0 {
		syms := collectSyms(append(append([]*Term{}, p.pc...), c))
		if len(syms) <= 120 {
			m := s.Model(syms)
			if len(m) == len(syms) {
				p.model = m
				p.modelMemo = map[int]*Term{}
			}
		}
	}
	s.Pop()
	if strings.HasPrefix(r, "error") {
		p.eng.note("solver-error", r)
		return true
	}
	return r != "unsat"
}

// decide makes an n-ary decision. conds[i] is the condition under which alternative i is taken
// (they must be exhaustive). Returns the chosen alternative, with its condition assumed.
func (p *Path) decide(conds []*Term) int {
	// trivial cases
	live := 0
	last := -1
	for i, c := range conds {
		if c != TFalse {
			live++
			last = i
		}
	}
	if live == 0 {
		p.abort("infeasible", "no alternative")
	}
	if live == 1 {
		p.assume(conds[last])
		return last
	}
	for i, c := range conds {
		if c == TTrue {
			return i
		}
	}
	if p.pos < len(p.prefix) {
		ch := p.prefix[p.pos]
		p.pos++
		p.decisions = append(p.decisions, ch)
		p.assume(conds[ch])
		return ch
	}
	// new decision: find feasible alternatives
	var feas []int
	for i, c := range conds {
		if c == TFalse {
			continue
		}
		// if all earlier ones infeasible and this is the last live one, it must be feasible (pc is feasible)
		if i == last && len(feas) == 0 {
			feas = append(feas, i)
			break
		}
		if p.feasible(c) {
			feas = append(feas, i)
		}
	}
	if len(feas) == 0 {
		p.abort("infeasible", "no feasible alternative")
	}
	ch := feas[0]
	if len(feas) > 1 && p.eng.cfg.Verbose > 0 {
		p.eng.mu.Lock()
		if p.eng.forkSites == nil {
			p.eng.forkSites = map[string]int{}
		}
		p.eng.forkSites[p.where()]++
		p.eng.mu.Unlock()
	}
	base := append([]int(nil), p.decisions...)
	for _, alt := range feas[1:] {
		np := append(append([]int(nil), base...), alt)
		p.eng.enqueue(np)
	}
	p.pos++
	p.decisions = append(p.decisions, ch)
	p.prefix = append(p.prefix, ch)
	p.assume(conds[ch])
	return ch
}

// decideFree: n-way fork on a fresh selector; every alternative is feasible by construction (no solver query).
func (p *Path) decideFree(conds []*Term) int {
	if p.pos < len(p.prefix) {
		ch := p.prefix[p.pos]
		p.pos++
		p.decisions = append(p.decisions, ch)
		p.assume(conds[ch])
		return ch
	}
	base := append([]int(nil), p.decisions...)
	for alt := len(conds) - 1; alt >= 1; alt-- {
		p.eng.enqueue(append(append([]int(nil), base...), alt))
	}
	p.pos++
	p.decisions = append(p.decisions, 0)
	p.prefix = append(p.prefix, 0)
	p.assume(conds[0])
	return 0
}

func (p *Path) branch(c *Term) bool {
	if c.IsConst() {
		return c.b
	}
	if sc := p.substitute(c); sc.IsConst() {
		return sc.b
	}
	// a condition that was already decided on this path (same hash-consed term) needs no solver query
	if v, ok := p.known[c.id]; ok {
		return v
	}
	return p.decide([]*Term{c, Not(c)}) == 0
}

// concretizeInt forks over the possible values lo..hi of t.
func (p *Path) concretizeInt(t *Term, lo, hi int64, what string) int64 {
	if t.IsConst() {
		return t.i.Int64()
	}
	if t.lo != nil && t.lo.IsInt64() && t.lo.Int64() > lo {
		lo = t.lo.Int64()
	}
	if t.hi != nil && t.hi.IsInt64() && t.hi.Int64() < hi {
		hi = t.hi.Int64()
	}
	if hi-lo > 64 {
		p.unsupported("cannot concretise %s over [%d,%d]", what, lo, hi)
	}
	var conds []*Term
	for v := lo; v <= hi; v++ {
		conds = append(conds, Eq(t, TInt64(v)))
	}
	// values outside the range: make it an explicit infeasible assumption (caller checked bounds)
	ch := p.decide(append(conds, And(Not(And(Ge(t, TInt64(lo)), Le(t, TInt64(hi)))))))
	if ch == len(conds) {
		p.unsupported("value of %s outside concretisation range [%d,%d]", what, lo, hi)
	}
	return lo + int64(ch)
}

func (p *Path) concretizeStr(t *Term, what string) string {
	if t.IsConst() {
		return t.s
	}
	pool := p.poolOf(t)
	if pool == nil {
		p.unsupported("cannot concretise string %s (%v)", what, t)
	}
	var conds []*Term
	for _, s := range pool {
		conds = append(conds, Eq(t, TStr(s)))
	}
	rest := TTrue
	for _, c := range conds {
		rest = And(rest, Not(c))
	}
	ch := p.decide(append(conds, rest))
	if ch == len(pool) {
		// membership in the pool was assumed when the symbol was created, so this alternative is infeasible
		// (it is only reached when the string solver answered unknown)
		p.abort("infeasible", "string %s outside its pool", what)
	}
	return pool[ch]
}

func (p *Path) poolOf(t *Term) []string {
	if t.op == "sym" {
		return p.pools[t.name]
	}
	if t.op == "ite" {
		a, b := p.poolOf(t.args[1]), p.poolOf(t.args[2])
		if t.args[1].IsConst() {
			a = []string{t.args[1].s}
		}
		if t.args[2].IsConst() {
			b = []string{t.args[2].s}
		}
		if a == nil || b == nil {
			return nil
		}
		m := map[string]bool{}
		var out []string
		for _, s := range append(append([]string{}, a...), b...) {
			if !m[s] {
				m[s] = true
				out = append(out, s)
			}
		}
		return out
	}
	return nil
}

// ---------------------------------------------------------------- obligations

func modelStrings(m map[string]*Term) map[string]string {
	out := map[string]string{}
	for k, v := range m {
		switch v.sort {
		case SBool:
			out[k] = fmt.Sprint(v.b)
		case SInt:
			out[k] = v.i.String()
		default:
			out[k] = v.s
		}
	}
	return out
}

// checkNeg decides whether pc ∧ neg is satisfiable, definitively (one-shot solver). Returns verdict, model.
func (p *Path) checkNeg(neg *Term, wantModel bool) (string, map[string]*Term, int64) {
	t0 := time.Now()
	p.ensureSync()
	// cheap attempt on the incremental solver. Only an "unsat" is taken from it: a counterexample is always re-derived from a
	// clean solver state with the full path condition (an incremental "sat" from a solver that lost assertions would be a false alarm).
	s := p.w.inc
	s.Push()
	s.Assert(neg)
	r := s.Check(p.eng.cfg.FeasTimeoutMS)
	s.Pop()
	if r == "unsat" {
		return r, nil, time.Since(t0).Milliseconds()
	}
	var m map[string]*Term
	as := append(append([]*Term{}, p.pc...), neg)
	to := p.eng.cfg.AssertTimeoutMS
	if p.assertTO > 0 {
		to = p.assertTO
	}
	r, m = p.w.one.CheckOnce(as, to, wantModel)
	if strings.HasPrefix(r, "error") {
		p.eng.note("solver-error", r)
		r = "unknown"
	}
	if r == "sat" && wantModel && !modelSatisfies(as, m) {
		p.eng.note("solver-error", "model returned by the solver does not satisfy the query; verdict discarded")
		r = "unknown"
	}
	if r == "unknown" {
		// second opinion from z3 5.1 (the two versions have different strengths on nonlinear integer arithmetic)
		if p.w.one2 == nil {
			p.w.one2 = NewSolver("z3-new")
		}
		r2, m2 := p.w.one2.CheckOnce(as, to, wantModel)
		if r2 == "sat" && wantModel && !modelSatisfies(as, m2) {
			p.eng.note("solver-error", "model returned by the second solver does not satisfy the query; verdict discarded")
			r2 = "unknown"
		}
		if r2 == "sat" || r2 == "unsat" {
			atomic.AddInt64(&statFallback, 1)
			return r2, m2, time.Since(t0).Milliseconds()
		}
	}
	if p.eng.cfg.CrossCheck && p.w.one2 != nil && (r == "sat" || r == "unsat") {
		r2, _ := p.w.one2.CheckOnce(as, to, false)
		if (r2 == "sat" || r2 == "unsat") && r2 != r {
			p.eng.note("solver-disagreement", fmt.Sprintf("%s vs %s", r, r2))
			r = "unknown"
		}
	}
	return r, m, time.Since(t0).Milliseconds()
}

// modelSatisfies re-evaluates every assertion under the model the solver returned. An assertion that evaluates to false means the
// answer cannot be trusted (lost assertion, crashed process); assertions that do not evaluate to a constant (uninterpreted
// functions, incomplete model) are not counted against the model.
func modelSatisfies(as []*Term, m map[string]*Term) bool {
	syms := collectSyms(as)
	if len(syms) == 0 {
		return true
	}
	if len(m) == 0 {
		return false
	}
	if len(m) < len(syms) {
		return true
	}
	memo := map[int]*Term{}
	for _, a := range as {
		if evalTerm(a, m, memo) == TFalse {
			return false
		}
	}
	return true
}

func (p *Path) record(o Obligation) {
	o.Harness = p.harness
	o.Finding = strings.Join(p.tags, ",")
	if o.Verdict == "sat" || o.Verdict == "unknown" {
		o.Path = append([]int(nil), p.decisions...)
		if o.Stack == nil {
			o.Stack = p.stack()
		}
	}
	e := p.eng
	e.mu.Lock()
	// keep every violation / inconclusive; aggregate discharged ones
	e.obligations = append(e.obligations, o)
	e.mu.Unlock()
	if o.Verdict == "sat" {
		atomic.AddInt64(&e.violations, 1)
		if o.Finding == "" {
			// enough counterexamples for one harness: a failing check should report quickly (known findings never count)
			if n := atomic.AddInt64(&e.untagged, 1); e.cfg.MaxViolations > 0 && n >= e.cfg.MaxViolations {
				if atomic.CompareAndSwapInt32(&e.stop, 0, 1) {
					e.note("limit", "violation limit reached; exploration of this harness stopped early")
				}
			}
		}
	}
}

func (p *Path) assertTerm(c *Term, label string) {
	if c != TTrue && p.substitute(c) == TTrue {
		c = TTrue
	}
	if c == TTrue {
		p.record(Obligation{Label: label, Kind: "assert", Verdict: "trivial"})
		return
	}
	r, m, ms := p.checkNeg(Not(c), true)
	switch r {
	case "unsat":
		p.record(Obligation{Label: label, Kind: "assert", Verdict: "unsat", TimeMS: ms})
	case "sat":
		o := Obligation{Label: label, Kind: "assert", Verdict: "sat", Model: modelStrings(m), TimeMS: ms}
		p.dumpQuery(&o, Not(c))
		p.record(o)
	default:
		o := Obligation{Label: label, Kind: "assert", Verdict: "unknown", TimeMS: ms}
		p.dumpQuery(&o, Not(c))
		p.record(o)
	}
	// continue under the asserted condition
	if c == TFalse {
		p.abort("done", "assert false")
	}
	if r != "unsat" {
		if !p.feasible(c) {
			p.abort("done", "assertion always fails here")
		}
	}
	p.assume(c)
}

var dumpCounter int64
var statModelHits int64
var statFallback int64

func (p *Path) dumpQuery(o *Obligation, neg *Term) {
	if p.eng.cfg.DumpDir == "" {
		return
	}
	n := atomic.AddInt64(&dumpCounter, 1)
	fn := fmt.Sprintf("%s/%s_%d.smt2", p.eng.cfg.DumpDir, p.harness, n)
	as := append(append([]*Term{}, p.pc...), neg)
	os.WriteFile(fn, []byte("; "+o.Label+"\n"+QueryText(as)), 0644)
	o.QueryOut = fn
}

// panicNow: the program panics unconditionally on this path.
func (p *Path) panicNow(site, msg string, val Value) {
	panic(progPanic{val: val, site: site, msg: msg, stack: p.stack()})
}

// panicIf: the program panics when cond holds. Continues under ¬cond.
func (p *Path) panicIf(cond *Term, site, msg string) {
	if cond == TFalse {
		return
	}
	if cond == TTrue {
		p.panicNow(site, msg, nil)
	}
	// a symbolic panic condition is an implicit obligation: the solver decides whether the panic is reachable here
	atomic.AddInt64(&p.eng.panicChecks, 1)
	if p.branch(cond) {
		p.panicNow(site, msg, nil)
	}
}

// reportPanic is called when a program panic reaches the top of the harness (or a catch that reports).
func (p *Path) reportPanic(pp progPanic) {
	label := "no-panic"
	r, m, ms := p.checkNeg(TTrue, true)
	o := Obligation{Label: label, Kind: "panic", Site: pp.site, Msg: pp.msg, TimeMS: ms, Stack: pp.stack}
	switch r {
	case "unsat":
		return // path infeasible after all
	case "sat":
		o.Verdict = "sat"
		o.Model = modelStrings(m)
	default:
		o.Verdict = "unknown"
	}
	p.dumpQuery(&o, TTrue)
	p.record(o)
}

// ---------------------------------------------------------------- engine run loop

func (e *Engine) enqueue(prefix []int) {
	if e.noFork {
		return
	}
	e.mu.Lock()
	e.queue = append(e.queue, prefix)
	e.mu.Unlock()
	e.cond.Signal()
}

func (e *Engine) RunHarness(fn *ssa.Function) {
	e.queue = [][]int{append([]int{}, e.startPrefix...)}
	e.active = 0
	var wg sync.WaitGroup
	done := make(chan struct{})
	go func() {
		t0 := time.Now()
		tick := time.NewTicker(30 * time.Second)
		defer tick.Stop()
		for {
			select {
			case <-done:
				return
			case <-tick.C:
				e.mu.Lock()
				q, a, no := len(e.queue), e.active, len(e.obligations)
				e.mu.Unlock()
				fmt.Fprintf(os.Stderr, "  ... %s %.0fs paths=%d infeasible=%d queue=%d active=%d obligations=%d violations=%d queries=%d\n", fn.Name(), time.Since(t0).Seconds(),
					atomic.LoadInt64(&e.pathsDone), atomic.LoadInt64(&e.pathsInfeas), q, a, no, atomic.LoadInt64(&e.violations), atomic.LoadInt64(&statQueries))
			}
		}
	}()
	defer close(done)
	for i := 0; i < e.cfg.Workers; i++ {
		wg.Add(1)
		go func(id int) {
			defer wg.Done()
			w := &Worker{id: id, inc: NewSolver("z3"), one: NewSolver("z3")}
			if e.cfg.CrossCheck {
				w.one2 = NewSolver("z3-new")
			}
			defer func() {
				w.inc.Close()
				w.one.Close()
				if w.one2 != nil {
					w.one2.Close()
				}
			}()
			_ = id
			for {
				e.mu.Lock()
				for len(e.queue) == 0 && e.active > 0 {
					e.cond.Wait()
				}
				if len(e.queue) == 0 && e.active == 0 {
					e.mu.Unlock()
					e.cond.Broadcast()
					return
				}
				n := len(e.queue)
				prefix := e.queue[n-1]
				e.queue = e.queue[:n-1]
				e.active++
				e.mu.Unlock()
				if atomic.LoadInt32(&e.stop) == 0 {
					e.runPath(w, fn, prefix)
				}
				e.mu.Lock()
				e.active--
				e.mu.Unlock()
				e.cond.Broadcast()
			}
		}(i)
	}
	wg.Wait()
}

func (e *Engine) runPath(w *Worker, fn *ssa.Function, prefix []int) {
	if e.cfg.MaxPaths > 0 && atomic.LoadInt64(&e.pathsDone) >= e.cfg.MaxPaths {
		e.note("limit", "max paths reached; remaining prefixes dropped")
		return
	}
	p := &Path{eng: e, w: w, harness: fn.Name(), prefix: append([]int(nil), prefix...),
		globals: map[*ssa.Global]*Value{}, pkgInit: map[*ssa.Package]bool{}, ufApps: map[string][]*Term{},
		pools: map[string][]string{}, unroll: e.cfg.Unroll, knobs: map[string]int64{}, world: map[string]Value{}, findings: map[string]bool{}}
	w.inc.PopAll()
	w.inc.Push()
	p.solverGen = w.inc.gen
	defer func() {
		if r := recover(); r != nil {
			switch r := r.(type) {
			case pathAbort:
				switch r.kind {
				case "infeasible":
					atomic.AddInt64(&e.pathsInfeas, 1)
				case "done":
					atomic.AddInt64(&e.pathsDone, 1)
				default:
					atomic.AddInt64(&e.pathsDone, 1)
					e.note(r.kind, r.msg)
					if e.cfg.Verbose > 0 {
						fmt.Fprintf(os.Stderr, "[%s] path %v aborted: %s: %s\n", fn.Name(), p.decisions, r.kind, r.msg)
					}
				}
			case progPanic:
				atomic.AddInt64(&e.pathsDone, 1)
				func() {
					defer func() {
						if r2 := recover(); r2 != nil {
							e.note("internal", fmt.Sprint(r2))
						}
					}()
					p.reportPanic(r)
				}()
			default:
				atomic.AddInt64(&e.pathsDone, 1)
				e.note("internal", fmt.Sprintf("%v @ %s", r, p.where()))
				if e.cfg.Verbose > 0 {
					fmt.Fprintf(os.Stderr, "[%s] INTERNAL %v\n%s\n", fn.Name(), r, debugStack())
				}
			}
		} else {
			atomic.AddInt64(&e.pathsDone, 1)
		}
	}()
	p.callSSA(nil, fn, nil, nil)
}

// ---------------------------------------------------------------- globals / init

func (p *Path) global(g *ssa.Global) *Value {
	if c, ok := p.globals[g]; ok {
		return c
	}
	pkg := g.Pkg
	if !p.pkgInit[pkg] {
		p.pkgInit[pkg] = true
		pr := p.eng.pristineFor(p, pkg)
		memo := map[*Value]*Value{}
		for gg, cell := range pr {
			p.globals[gg] = cloneCell(cell, memo)
		}
	}
	if c, ok := p.globals[g]; ok {
		return c
	}
	c := new(Value)
	*c = zero(deref(g.Type()))
	p.globals[g] = c
	return c
}

func deref(t types.Type) types.Type {
	if pt, ok := t.Underlying().(*types.Pointer); ok {
		return pt.Elem()
	}
	return t
}

// pristineFor runs the package initialiser once (leniently, concretely) and caches the resulting globals.
func (e *Engine) pristineFor(p *Path, pkg *ssa.Package) map[*ssa.Global]*Value {
	if !p.initLock {
		e.pristineMu.Lock()
		defer e.pristineMu.Unlock()
	}
	if pr, ok := e.pristine[pkg]; ok {
		return pr
	}
	pkg.Build()
	ip := &Path{eng: e, w: p.w, harness: "init:" + pkg.Pkg.Path(), globals: map[*ssa.Global]*Value{}, pkgInit: map[*ssa.Package]bool{pkg: true},
		ufApps: map[string][]*Term{}, pools: map[string][]string{}, unroll: 1 << 30, lenient: 1, knobs: map[string]int64{}, world: map[string]Value{}, initLock: true, findings: map[string]bool{}}
	// pre-create zero cells for every global of the package
	for _, m := range pkg.Members {
		if g, ok := m.(*ssa.Global); ok {
			c := new(Value)
			func() {
				defer func() {
					if r := recover(); r != nil {
						*c = Poison{"zero"}
					}
				}()
				*c = zero(deref(g.Type()))
			}()
			ip.globals[g] = c
		}
	}
	initFn := pkg.Func("init")
	if initFn != nil {
		func() {
			defer func() {
				if r := recover(); r != nil {
					if e.cfg.Verbose > 1 {
						fmt.Fprintf(os.Stderr, "init %s stopped: %v\n", pkg.Pkg.Path(), r)
					}
				}
			}()
			ip.callSSA(nil, initFn, nil, nil)
		}()
	}
	// other packages may have been initialised transitively into ip.globals; keep only this package's
	pr := map[*ssa.Global]*Value{}
	for g, c := range ip.globals {
		if g.Pkg == pkg {
			pr[g] = c
		}
	}
	e.pristine[pkg] = pr
	return pr
}

func cloneCell(c *Value, memo map[*Value]*Value) *Value {
	if c == nil {
		return nil
	}
	if n, ok := memo[c]; ok {
		return n
	}
	n := new(Value)
	memo[c] = n
	*n = cloneValue(*c, memo)
	return n
}

func cloneValue(v Value, memo map[*Value]*Value) Value {
	switch v := v.(type) {
	case Struct:
		c := make(Struct, len(v))
		for i, x := range v {
			c[i] = cloneValue(x, memo)
		}
		return c
	case Array:
		c := make(Array, len(v))
		for i, x := range v {
			c[i] = cloneValue(x, memo)
		}
		return c
	case SliceV:
		if v.A == nil {
			return v
		}
		// note: aliasing between slices sharing a backing array is not preserved across clones
		c := make([]Value, len(v.A), cap(v.A))
		for i, x := range v.A {
			c[i] = cloneValue(x, memo)
		}
		return SliceV{c}
	case *Value:
		return cloneCell(v, memo)
	case Iface:
		return Iface{v.T, cloneValue(v.V, memo)}
	case *MapObj:
		if v == nil {
			return v
		}
		m := &MapObj{}
		for i := range v.Keys {
			m.Keys = append(m.Keys, cloneValue(v.Keys[i], memo))
			m.Vals = append(m.Vals, cloneValue(v.Vals[i], memo))
		}
		return m
	case *ClosureV:
		c := &ClosureV{Fn: v.Fn}
		for _, x := range v.Env {
			c.Env = append(c.Env, cloneValue(x, memo))
		}
		return c
	case Tuple:
		c := make(Tuple, len(v))
		for i, x := range v {
			c[i] = cloneValue(x, memo)
		}
		return c
	}
	return v
}

// ---------------------------------------------------------------- calls

func (p *Path) allowedToExecute(fn *ssa.Function) bool {
	if fn.Pkg == nil {
		return true // synthetic wrappers, bound methods, instantiations
	}
	path := fn.Pkg.Pkg.Path()
	for _, pre := range p.eng.execPrefix {
		if strings.HasPrefix(path, pre) {
			return true
		}
	}
	return false
}

func (p *Path) call(caller *frame, fnv Value, args []Value, pos token.Pos) Value {
	switch fn := fnv.(type) {
	case *ssa.Function:
		if fn == nil {
			p.panicNow(p.site(pos), "call of nil function", nil)
		}
		return p.callFunc(caller, fn, args, nil, pos)
	case *ClosureV:
		return p.callFunc(caller, fn.Fn, args, fn.Env, pos)
	case *ssa.Builtin:
		return p.callBuiltin(caller, fn, args, pos)
	case *NativeFn:
		return fn.F(p, args)
	case Poison:
		if p.lenient > 0 {
			return Poison{"call of poison"}
		}
	case nil:
		p.panicNow(p.site(pos), "call of nil function", nil)
	}
	p.unsupported("call of %T", fnv)
	return nil
}

func (p *Path) callFunc(caller *frame, fn *ssa.Function, args []Value, env []Value, pos token.Pos) Value {
	name := fn.String()
	if fn.Pkg == nil && fn.Origin() != nil {
		name = fn.Origin().String()
	}
	if p.lenient > 0 && (strings.HasPrefix(fn.Name(), "init#") || (fn.Name() == "init" && caller != nil)) {
		return nil // other packages are initialised lazily; explicit init() bodies are registration code
	}
	if strings.HasPrefix(fn.Name(), "verif_") {
		if h, ok := verifAPI[fn.Name()]; ok {
			return h(p, caller, args, pos)
		}
	}
	if m, ok := p.eng.models[name]; ok && m != fn {
		// do not re-enter the model from inside itself (a model may call the real function)
		return p.callSSA(caller, m, args, nil)
	}
	if h, ok := intrinsics[name]; ok {
		return h(p, caller, args, pos)
	}
	if fn.Pkg != nil && fn.Blocks == nil {
		fn.Pkg.Build()
	}
	if fn.Blocks != nil && p.allowedToExecute(fn) {
		return p.callSSA(caller, fn, args, env)
	}
	if p.lenient > 0 {
		return Poison{"call " + name}
	}
	p.unsupported("no model for %s", name)
	return nil
}

func (p *Path) site(pos token.Pos) string {
	if !pos.IsValid() {
		if p.top != nil {
			return p.top.fn.String()
		}
		return "?"
	}
	ps := p.eng.fset.Position(pos)
	f := ps.Filename
	if i := strings.Index(f, "/repo/"); i >= 0 {
		f = f[i+6:]
	} else if i := strings.Index(f, "/pkg/mod/"); i >= 0 {
		f = f[i+9:]
	}
	return fmt.Sprintf("%s:%d", f, ps.Line)
}

func (p *Path) callSSA(caller *frame, fn *ssa.Function, args []Value, env []Value) Value {
	if fn.Blocks == nil {
		if fn.Pkg != nil {
			fn.Pkg.Build()
		}
		if fn.Blocks == nil {
			p.unsupported("function without body: %s", fn.String())
		}
	}
	p.depth++
	if p.depth > 400 {
		p.abort("limit", "call depth")
	}
	if p.lenient == 0 && fn.Pkg != nil {
		p.eng.mu.Lock()
		p.eng.funcsSeen[fn.String()] = true
		p.eng.mu.Unlock()
	}
	fr := &frame{fn: fn, env: make(map[ssa.Value]Value, 32), block: fn.Blocks[0], caller: caller}
	for i, par := range fn.Params {
		if i < len(args) {
			fr.env[par] = args[i]
		}
	}
	for i, fv := range fn.FreeVars {
		fr.env[fv] = env[i]
	}
	for _, l := range fn.Locals {
		fr.env[l] = new(Value)
	}
	savedTop := p.top
	p.top = fr
	defer func() {
		p.top = savedTop
		p.depth--
	}()
	p.runFrame(fr)
	return fr.result
}

// runFrame executes the frame's blocks. Program panics run the deferred calls and then propagate.
func (p *Path) runFrame(fr *frame) {
	defer func() {
		if fr.block == nil && !fr.panicking {
			return // normal return
		}
		r := recover()
		if r == nil {
			return
		}
		pp, ok := r.(progPanic)
		if !ok {
			panic(r)
		}
		fr.panicking = true
		fr.panicVal = &pp
		p.runDefers(fr)
		if fr.panicking {
			panic(*fr.panicVal)
		}
		// recovered: function returns normally with its named results as currently stored
		if fr.fn.Recover != nil {
			fr.block = fr.fn.Recover
			fr.prev = nil
			p.runBlocks(fr)
		} else {
			fr.result = zeroResults(fr.fn)
		}
	}()
	p.runBlocks(fr)
}

func zeroResults(fn *ssa.Function) Value {
	res := fn.Signature.Results()
	switch res.Len() {
	case 0:
		return nil
	case 1:
		return zero(res.At(0).Type())
	}
	t := make(Tuple, res.Len())
	for i := range t {
		t[i] = zero(res.At(i).Type())
	}
	return t
}

func (p *Path) runDefers(fr *frame) {
	for len(fr.defers) > 0 {
		d := fr.defers[len(fr.defers)-1]
		fr.defers = fr.defers[:len(fr.defers)-1]
		func() {
			defer func() {
				if r := recover(); r != nil {
					if pp, ok := r.(progPanic); ok {
						fr.panicking = true
						fr.panicVal = &pp
						return
					}
					panic(r)
				}
			}()
			p.call(fr, d.fn, d.args, d.pos)
		}()
	}
}

func (p *Path) runBlocks(fr *frame) {
	for fr.block != nil {
		b := fr.block
		// phis first, evaluated simultaneously
		nphi := 0
		var phiVals []Value
		for _, in := range b.Instrs {
			phi, ok := in.(*ssa.Phi)
			if !ok {
				break
			}
			nphi++
			var v Value
			for i, pred := range b.Preds {
				if pred == fr.prev {
					v = p.get(fr, phi.Edges[i])
					break
				}
			}
			phiVals = append(phiVals, v)
		}
		for i := 0; i < nphi; i++ {
			fr.env[b.Instrs[i].(*ssa.Phi)] = phiVals[i]
		}
		jumped := false
		for _, in := range b.Instrs[nphi:] {
			p.steps++
			if p.steps > p.eng.cfg.MaxSteps {
				p.abort("limit", "step limit")
			}
			var j bool
			if p.lenient > 0 {
				j = p.visitLenient(fr, in)
			} else {
				j = p.visit(fr, in)
			}
			if j {
				jumped = true
				break
			}
		}
		if !jumped {
			p.abort("internal", "block fell through")
		}
	}
}

// visitLenient executes one instruction of a package initialiser; whatever the engine cannot evaluate becomes Poison
// instead of stopping the whole initialiser (only values that are actually used later matter).
func (p *Path) visitLenient(fr *frame, in ssa.Instruction) (jumped bool) {
	defer func() {
		if r := recover(); r != nil {
			pa, ok := r.(pathAbort)
			if !ok || (pa.kind != "lenient" && pa.kind != "unsupported") {
				if _, isPanic := r.(progPanic); !isPanic {
					panic(r)
				}
			}
			if v, isVal := in.(ssa.Value); isVal {
				fr.env[v] = Poison{"init"}
			}
			switch in.(type) {
			case *ssa.If:
				fr.prev, fr.block = fr.block, fr.block.Succs[1]
				jumped = true
			case *ssa.Jump:
				fr.prev, fr.block = fr.block, fr.block.Succs[0]
				jumped = true
			case *ssa.Return, *ssa.Panic:
				fr.block = nil
				jumped = true
			}
		}
	}()
	return p.visit(fr, in)
}

func (p *Path) get(fr *frame, v ssa.Value) Value {
	switch v := v.(type) {
	case nil:
		return nil
	case *ssa.Const:
		return p.constValue(v)
	case *ssa.Global:
		return p.global(v)
	case *ssa.Function:
		return v
	case *ssa.Builtin:
		return v
	}
	if r, ok := fr.env[v]; ok {
		return r
	}
	p.abort("internal", "no value for %s (%T) in %s", v.Name(), v, fr.fn)
	return nil
}

func (p *Path) constValue(c *ssa.Const) Value {
	t := c.Type()
	if c.Value == nil {
		return zero(t)
	}
	if b, ok := t.Underlying().(*types.Basic); ok {
		switch {
		case b.Info()&types.IsBoolean != 0:
			return TBool(constantBool(c))
		case b.Info()&types.IsInteger != 0:
			v, ok := new(big.Int).SetString(c.Value.ExactString(), 10)
			if !ok {
				// could be a float-looking constant
				return TInt64(c.Int64())
			}
			return TInt(v)
		case b.Info()&types.IsString != 0:
			return TStr(constantString(c))
		case b.Info()&types.IsFloat != 0, b.Info()&types.IsComplex != 0:
			return FloatV{}
		}
	}
	p.unsupported("constant %v of type %v", c, t)
	return nil
}

// ---------------------------------------------------------------- instruction dispatch

// visit executes one instruction; returns true if control transferred (jump / return).
func (p *Path) visit(fr *frame, instr ssa.Instruction) bool {
	switch in := instr.(type) {
	case *ssa.DebugRef:
	case *ssa.UnOp:
		fr.env[in] = p.unop(fr, in)
	case *ssa.BinOp:
		fr.env[in] = p.binop(in.Op, in.X.Type(), p.get(fr, in.X), p.get(fr, in.Y), in.Pos(), in.Type())
	case *ssa.Call:
		fn, args := p.prepareCall(fr, &in.Call, in.Pos())
		fr.env[in] = p.call(fr, fn, args, in.Pos())
	case *ssa.ChangeInterface:
		fr.env[in] = p.get(fr, in.X)
	case *ssa.ChangeType:
		fr.env[in] = p.get(fr, in.X)
	case *ssa.Convert:
		fr.env[in] = p.conv(in.Type(), in.X.Type(), p.get(fr, in.X))
	case *ssa.MakeInterface:
		fr.env[in] = Iface{T: in.X.Type(), V: p.get(fr, in.X)}
	case *ssa.Extract:
		tu := p.get(fr, in.Tuple)
		if po, ok := tu.(Poison); ok {
			fr.env[in] = po
		} else {
			fr.env[in] = tu.(Tuple)[in.Index]
		}
	case *ssa.Slice:
		fr.env[in] = p.sliceOp(fr, in)
	case *ssa.Return:
		switch len(in.Results) {
		case 0:
		case 1:
			fr.result = p.get(fr, in.Results[0])
		default:
			res := make(Tuple, len(in.Results))
			for i, r := range in.Results {
				res[i] = p.get(fr, r)
			}
			fr.result = res
		}
		fr.block = nil
		return true
	case *ssa.RunDefers:
		p.runDefers(fr)
		if fr.panicking {
			panic(*fr.panicVal)
		}
	case *ssa.Panic:
		v := p.get(fr, in.X)
		p.panicNow(p.site(in.Pos()), "panic: "+showValue(v, 3), v)
	case *ssa.Store:
		addr := p.get(fr, in.Addr)
		ptr, ok := addr.(*Value)
		if !ok {
			if _, isP := addr.(Poison); isP && p.lenient > 0 {
				break
			}
			p.unsupported("store to %T", addr)
		}
		if ptr == nil {
			p.panicNow(p.site(in.Pos()), "nil pointer dereference (store)", nil)
		}
		*ptr = copyVal(p.get(fr, in.Val))
	case *ssa.If:
		c := p.get(fr, in.Cond)
		ct, ok := c.(*Term)
		if !ok {
			p.unsupported("branch on %T", c)
		}
		succ := 1
		if !ct.IsConst() {
			if fr.symLoop == nil {
				fr.symLoop = map[ssa.Instruction]int{}
			}
			fr.symLoop[in]++
			if fr.symLoop[in] > p.unroll {
				p.abort("unwind", "UNWIND-INCOMPLETE at %s", p.site(in.Pos()))
			}
		}
		if p.branch(ct) {
			succ = 0
		}
		fr.prev, fr.block = fr.block, fr.block.Succs[succ]
		return true
	case *ssa.Jump:
		fr.prev, fr.block = fr.block, fr.block.Succs[0]
		return true
	case *ssa.Defer:
		fn, args := p.prepareCall(fr, &in.Call, in.Pos())
		fr.defers = append(fr.defers, deferred{fn, args, in.Pos()})
	case *ssa.Alloc:
		var addr *Value
		if in.Heap {
			addr = new(Value)
			fr.env[in] = addr
		} else {
			addr = fr.env[in].(*Value)
		}
		*addr = zero(deref(in.Type()))
	case *ssa.MakeSlice:
		n := p.concretizeInt(p.get(fr, in.Len).(*Term), 0, 64, "make len")
		c := p.concretizeInt(p.get(fr, in.Cap).(*Term), 0, 1<<20, "make cap")
		if c < n {
			c = n
		}
		if c > 1<<16 {
			c = n
		}
		a := make([]Value, n, c)
		el := in.Type().Underlying().(*types.Slice).Elem()
		for i := range a {
			a[i] = zero(el)
		}
		fr.env[in] = SliceV{a}
	case *ssa.MakeMap:
		fr.env[in] = &MapObj{}
	case *ssa.Range:
		fr.env[in] = p.rangeIter(fr, p.get(fr, in.X))
	case *ssa.Next:
		it := p.get(fr, in.Iter).(*iterV)
		fr.env[in] = it.next(p, in)
	case *ssa.FieldAddr:
		x := p.get(fr, in.X)
		ptr, ok := x.(*Value)
		if !ok {
			if _, isP := x.(Poison); isP && p.lenient > 0 {
				fr.env[in] = x
				break
			}
			p.unsupported("FieldAddr on %T", x)
		}
		if ptr == nil {
			p.panicNow(p.site(in.Pos()), "nil pointer dereference (field "+fieldName(in.X.Type(), in.Field)+")", nil)
		}
		st, ok := (*ptr).(Struct)
		if !ok {
			p.unsupported("FieldAddr on pointer to %T (%s)", *ptr, in.X.Type())
		}
		fr.env[in] = &st[in.Field]
	case *ssa.Field:
		x := p.get(fr, in.X)
		st, ok := x.(Struct)
		if !ok {
			if _, isP := x.(Poison); isP && p.lenient > 0 {
				fr.env[in] = x
				break
			}
			p.unsupported("Field on %T (%s)", x, in.X.Type())
		}
		fr.env[in] = st[in.Field]
	case *ssa.IndexAddr:
		fr.env[in] = p.indexAddr(fr, in)
	case *ssa.Index:
		fr.env[in] = p.index(fr, in)
	case *ssa.Lookup:
		fr.env[in] = p.lookup(fr, in)
	case *ssa.MapUpdate:
		m := p.get(fr, in.Map)
		mo, ok := m.(*MapObj)
		if !ok {
			p.unsupported("MapUpdate on %T", m)
		}
		if mo == nil {
			p.panicNow(p.site(in.Pos()), "assignment to entry in nil map", nil)
		}
		p.mapSet(mo, p.get(fr, in.Key), copyVal(p.get(fr, in.Value)))
	case *ssa.TypeAssert:
		fr.env[in] = p.typeAssert(fr, in)
	case *ssa.MakeClosure:
		var env []Value
		for _, b := range in.Bindings {
			env = append(env, p.get(fr, b))
		}
		fr.env[in] = &ClosureV{in.Fn.(*ssa.Function), env}
	case *ssa.SliceToArrayPointer:
		p.unsupported("SliceToArrayPointer")
	default:
		p.unsupported("instruction %T", instr)
	}
	return false
}

func fieldName(t types.Type, i int) string {
	if st, ok := deref(t).Underlying().(*types.Struct); ok && i < st.NumFields() {
		return st.Field(i).Name()
	}
	return fmt.Sprint(i)
}

func (p *Path) prepareCall(fr *frame, c *ssa.CallCommon, pos token.Pos) (Value, []Value) {
	v := p.get(fr, c.Value)
	var fn Value
	var args []Value
	if c.Method == nil {
		fn = v
	} else {
		recv, ok := v.(Iface)
		if !ok {
			if _, isP := v.(Poison); isP && p.lenient > 0 {
				return v, nil
			}
			p.unsupported("invoke on %T", v)
		}
		if recv.T == nil {
			p.panicNow(p.site(pos), "method "+c.Method.Name()+" invoked on nil interface", nil)
		}
		if eo, ok := recv.V.(*ErrObj); ok {
			return p.errMethod(eo, c.Method.Name()), nil
		}
		f := p.eng.prog.LookupMethod(recv.T, c.Method.Pkg(), c.Method.Name())
		if f == nil {
			p.unsupported("method %s not found on %s", c.Method.Name(), recv.T)
		}
		fn = f
		args = append(args, recv.V)
	}
	for _, a := range c.Args {
		args = append(args, p.get(fr, a))
	}
	return fn, args
}

// errMethod returns a native function value for methods on engine error objects.
func (p *Path) errMethod(eo *ErrObj, name string) Value {
	return &NativeFn{Name: "error." + name, F: func(p *Path, args []Value) Value {
		switch name {
		case "Error", "String":
			if eo == nil {
				p.panicNow("?", "Error() on nil *Error", nil)
			}
			return eo.Msg
		case "Unwrap", "Cause":
			if eo.Cause == nil {
				return Iface{}
			}
			return Iface{T: errorNamed, V: eo.Cause}
		}
		p.unsupported("method %s on engine error", name)
		return nil
	}}
}

func debugStack() string {
	buf := make([]byte, 1<<14)
	n := runtimeStack(buf)
	return string(buf[:n])
}

// sortedKeys helper
func sortedKeys(m map[string]int) []string {
	var ks []string
	for k := range m {
		ks = append(ks, k)
	}
	sort.Strings(ks)
	return ks
}
