package main

// symgo — bounded symbolic execution of Go (go/ssa) with SMT-decided obligations.
//
// usage: symgo -spec spec.json -out result.json [-workers N] [-v]
//
// spec.json:
// { "repo": "/repo",
//   "units": [ { "pkg": "./x/cfeminter/keeper", "files": ["/verif/harness/C02/h.go"], "shared": ["/verif/harness/common/api.go", ...],
//                "harness": "^Verif_C02_" } ],
//   "exec_prefixes": [...], "feas_ms": 2000, "assert_ms": 60000, "max_steps": 20000000, "unroll": 64 }

import (
	"encoding/json"
	"flag"
	"fmt"
	"go/ast"
	"go/types"
	"os"
	"path/filepath"
	"regexp"
	"sort"
	"strings"
	"sync"
	"time"

	"golang.org/x/tools/go/packages"
	"golang.org/x/tools/go/ssa"
	"golang.org/x/tools/go/ssa/ssautil"
)

type Unit struct {
	Pkg     string   `json:"pkg"`
	Files   []string `json:"files"`
	Shared  []string `json:"shared"`
	Harness string   `json:"harness"`
}

type Spec struct {
	Repo         string   `json:"repo"`
	Units        []Unit   `json:"units"`
	ExecPrefixes []string `json:"exec_prefixes"`
	FeasMS       int      `json:"feas_ms"`
	AssertMS     int      `json:"assert_ms"`
	MaxSteps     int64    `json:"max_steps"`
	MaxPaths     int64    `json:"max_paths"`
	MaxViolations int64   `json:"max_violations"`
	Unroll       int      `json:"unroll"`
	PermuteMaps  bool     `json:"permute_maps"`
	CrossCheck   bool     `json:"cross_check"`
}

type HarnessResult struct {
	Harness      string         `json:"harness"`
	Pkg          string         `json:"pkg"`
	Paths        int64          `json:"paths"`
	Infeasible   int64          `json:"infeasible_paths"`
	Obligations  int            `json:"obligations"`
	Discharged   int            `json:"discharged"`
	Trivial      int            `json:"trivial"`
	Violations   []Obligation   `json:"violations"`
	Inconclusive []Obligation   `json:"inconclusive"`
	Reaches      []ReachRec     `json:"reaches"`
	Emits        []EmitRec      `json:"emits,omitempty"`
	ReachCounts  map[string]int `json:"reach_counts"`
	Aborts       map[string]int `json:"aborts"`
	Labels       map[string]int `json:"labels"`
	WallS        float64        `json:"wall_s"`
	Queries      int64          `json:"queries"`
	PanicChecks  int64          `json:"panic_site_checks"`
	Fallback     int64          `json:"decided_by_second_solver"`
	SolverS      float64        `json:"solver_s"`
}

type RunResult struct {
	Harnesses []HarnessResult `json:"harnesses"`
	Functions []string        `json:"functions_encoded"`
	Assumes   []string        `json:"assume_sites"`
	LoadS     float64         `json:"load_s"`
	WallS     float64         `json:"wall_s"`
	Error     string          `json:"error,omitempty"`
}

var defaultExec = []string{
	"github.com/chain4energy/c4e-chain/",
	"github.com/cosmos/cosmos-sdk/types",
	"github.com/cosmos/cosmos-sdk/x/auth/vesting/types",
	"github.com/cosmos/cosmos-sdk/x/auth/types",
	"github.com/cosmos/cosmos-sdk/codec/types",
	"github.com/cosmos/cosmos-sdk/x/auth/vesting/exported",
	"github.com/cosmos/cosmos-sdk/store/prefix",
	"github.com/cosmos/cosmos-sdk/store/types",
}

func pkgNameOfDir(dir string) string {
	ents, _ := os.ReadDir(dir)
	for _, e := range ents {
		if strings.HasSuffix(e.Name(), ".go") && !strings.HasSuffix(e.Name(), "_test.go") {
			b, err := os.ReadFile(filepath.Join(dir, e.Name()))
			if err != nil {
				continue
			}
			for _, line := range strings.Split(string(b), "\n") {
				line = strings.TrimSpace(line)
				if strings.HasPrefix(line, "package ") {
					return strings.Fields(line)[1]
				}
			}
		}
	}
	return ""
}

var rePkgClause = regexp.MustCompile(`(?m)^package\s+\w+`)

func main() {
	specPath := flag.String("spec", "", "spec json")
	outPath := flag.String("out", "", "result json")
	workers := flag.Int("workers", 8, "parallel workers")
	verbose := flag.Int("v", 0, "verbosity")
	only := flag.String("only", "", "regexp restricting harness names")
	dump := flag.String("dump", "", "directory for SMT dumps of sat/unknown queries")
	slog := flag.String("solverlog", "", "prefix for solver transcript files")
	onePath := flag.String("path", "", "comma separated decision prefix: run only this path (debugging)")
	tier := flag.Int("tier", 0, "0 quick, 1 thorough (visible to harnesses through verif_tier)")
	flag.Parse()
	solverLogPath = *slog
	errorNamed = types.NewNamed(types.NewTypeName(0, nil, "verifError", nil), types.NewStruct(nil, nil), nil)

	var spec Spec
	b, err := os.ReadFile(*specPath)
	if err != nil {
		fatal("read spec: %v", err)
	}
	if err := json.Unmarshal(b, &spec); err != nil {
		fatal("parse spec: %v", err)
	}
	if spec.Repo == "" {
		spec.Repo = "/repo"
	}
	t0 := time.Now()
	res := RunResult{}
	overlay := map[string][]byte{}
	var patterns []string
	for _, u := range spec.Units {
		dir := filepath.Join(spec.Repo, u.Pkg)
		pn := pkgNameOfDir(dir)
		if pn == "" {
			fatal("cannot determine package name of %s", dir)
		}
		patterns = append(patterns, u.Pkg)
		for _, f := range append(append([]string{}, u.Shared...), u.Files...) {
			src, err := os.ReadFile(f)
			if err != nil {
				fatal("read overlay %s: %v", f, err)
			}
			src = rePkgClause.ReplaceAll(src, []byte("package "+pn))
			overlay[filepath.Join(dir, "zz_verif_"+filepath.Base(f))] = src
		}
	}
	cfg := &packages.Config{Mode: packages.LoadAllSyntax, Dir: spec.Repo, Overlay: overlay,
		Env: append(os.Environ(), "GOFLAGS=-mod=mod", "GOPROXY=off", "GOSUMDB=off", "GOTOOLCHAIN=local")}
	pkgs, err := packages.Load(cfg, patterns...)
	if err != nil {
		fatal("load: %v", err)
	}
	nerr := 0
	for _, p := range pkgs {
		for _, e := range p.Errors {
			fmt.Fprintf(os.Stderr, "LOAD ERROR %s: %v\n", p.PkgPath, e)
			nerr++
		}
	}
	if nerr > 0 {
		res.Error = "package load errors (harness does not type-check against the current tree)"
		writeResult(*outPath, res)
		os.Exit(3)
	}
	prog, spkgs := ssautil.AllPackages(pkgs, ssa.InstantiateGenerics)
	for _, sp := range spkgs {
		if sp != nil {
			sp.Build()
		}
	}
	execPre := spec.ExecPrefixes
	if len(execPre) == 0 {
		execPre = defaultExec
	}
	// build every package whose functions may be executed up front (lazy building races between workers)
	{
		var wg sync.WaitGroup
		for _, sp := range prog.AllPackages() {
			for _, pre := range execPre {
				if strings.HasPrefix(sp.Pkg.Path(), pre) {
					wg.Add(1)
					go func(sp *ssa.Package) { defer wg.Done(); sp.Build() }(sp)
					break
				}
			}
		}
		wg.Wait()
	}
	res.LoadS = time.Since(t0).Seconds()
	if *verbose > 0 {
		fmt.Fprintf(os.Stderr, "loaded in %.1fs\n", res.LoadS)
	}

	execPrefixes := spec.ExecPrefixes
	if len(execPrefixes) == 0 {
		execPrefixes = defaultExec
	}
	e := &Engine{prog: prog, fset: prog.Fset, models: map[string]*ssa.Function{}, execPrefix: execPrefixes}
	e.cfg = Config{FeasTimeoutMS: orInt(spec.FeasMS, 2000), AssertTimeoutMS: orInt(spec.AssertMS, 60000), MaxSteps: orInt64(spec.MaxSteps, 30000000),
		MaxPaths: spec.MaxPaths, MaxViolations: int64(orInt(int(spec.MaxViolations), 8)), Unroll: orInt(spec.Unroll, 64), Workers: *workers, Verbose: *verbose, DumpDir: *dump, PermuteMaps: spec.PermuteMaps, CrossCheck: spec.CrossCheck, Tier: *tier}
	if *onePath != "" {
		for _, x := range strings.Split(*onePath, ",") {
			var v int
			fmt.Sscanf(strings.TrimSpace(x), "%d", &v)
			e.startPrefix = append(e.startPrefix, v)
		}
		e.noFork = true
	}
	e.cond = sync.NewCond(&e.mu)
	e.pristine = map[*ssa.Package]map[*ssa.Global]*Value{}
	e.funcsSeen = map[string]bool{}
	e.assumes = map[string]bool{}

	var onlyRe *regexp.Regexp
	if *only != "" {
		onlyRe = regexp.MustCompile(*only)
	}

	for _, u := range spec.Units {
		var pp *packages.Package
		var sp *ssa.Package
		udir := filepath.Join(spec.Repo, u.Pkg)
		for i, cand := range pkgs {
			if len(cand.GoFiles) > 0 && filepath.Dir(cand.GoFiles[0]) == udir {
				pp, sp = cand, spkgs[i]
			}
		}
		if pp == nil {
			fatal("package for %s not found among loaded packages", u.Pkg)
		}
		// models: //verif:model <callee> directives on functions of the overlay files
		e.models = map[string]*ssa.Function{}
		for _, f := range pp.Syntax {
			for _, d := range f.Decls {
				fd, ok := d.(*ast.FuncDecl)
				if !ok || fd.Doc == nil {
					continue
				}
				for _, c := range fd.Doc.List {
					txt := strings.TrimSpace(strings.TrimPrefix(c.Text, "//"))
					if strings.HasPrefix(txt, "verif:model ") {
						target := strings.TrimSpace(strings.TrimPrefix(txt, "verif:model "))
						fn := sp.Func(fd.Name.Name)
						if fn == nil {
							fatal("model function %s not found", fd.Name.Name)
						}
						e.models[target] = fn
					}
				}
			}
		}
		hre := regexp.MustCompile(u.Harness)
		var names []string
		for name, m := range sp.Members {
			if fn, ok := m.(*ssa.Function); ok && hre.MatchString(name) && fn.Signature.Params().Len() == 0 {
				if onlyRe != nil && !onlyRe.MatchString(name) {
					continue
				}
				names = append(names, name)
			}
		}
		sort.Strings(names)
		if len(names) == 0 {
			fmt.Fprintf(os.Stderr, "warning: no harness matches %s in %s\n", u.Harness, u.Pkg)
		}
		for _, name := range names {
			fn := sp.Func(name)
			hr := e.runOne(fn, pp.PkgPath)
			res.Harnesses = append(res.Harnesses, hr)
			fmt.Fprintf(os.Stderr, "%-50s paths=%d oblig=%d discharged=%d trivial=%d viol=%d inconcl=%d aborts=%d  %.1fs (solver %.1fs, %d queries)\n",
				name, hr.Paths, hr.Obligations, hr.Discharged, hr.Trivial, len(hr.Violations), len(hr.Inconclusive), len(hr.Aborts), hr.WallS, hr.SolverS, hr.Queries)
			if *verbose > 0 || len(hr.Aborts) > 0 {
				for k, v := range hr.Aborts {
					fmt.Fprintf(os.Stderr, "    abort x%d: %s\n", v, k)
				}
			}
			if *verbose > 0 {
				type kv struct {
					k string
					v int
				}
				var fs []kv
				for k, v := range e.forkSites {
					fs = append(fs, kv{k, v})
				}
				sort.Slice(fs, func(i, j int) bool { return fs[i].v > fs[j].v })
				for i, x := range fs {
					if i < 25 {
						fmt.Fprintf(os.Stderr, "    fork x%d at %s\n", x.v, x.k)
					}
				}
				e.forkSites = nil
				for _, v := range hr.Inconclusive {
					fmt.Fprintf(os.Stderr, "    INCONCL %s [%s] %s %dms path=%v\n", v.Label, v.Kind, v.Site, v.TimeMS, v.Path)
				}
				for _, v := range hr.Violations {
					fmt.Fprintf(os.Stderr, "    VIOL %s [%s] %s %s model=%v\n", v.Label, v.Kind, v.Site, v.Msg, v.Model)
				}
			}
		}
	}
	for f := range e.funcsSeen {
		res.Functions = append(res.Functions, f)
	}
	sort.Strings(res.Functions)
	for a := range e.assumes {
		res.Assumes = append(res.Assumes, a)
	}
	sort.Strings(res.Assumes)
	res.WallS = time.Since(t0).Seconds()
	writeResult(*outPath, res)
}

func (e *Engine) runOne(fn *ssa.Function, pkgPath string) HarnessResult {
	t0 := time.Now()
	e.obligations = nil
	e.reaches = nil
	e.emits = nil
	e.aborts = map[string]int{}
	e.reachSeen = map[string]int{}
	e.pathsDone, e.pathsInfeas, e.violations, e.stop, e.panicChecks, e.untagged = 0, 0, 0, 0, 0, 0
	q0, s0 := statQueries, statSolverNS
	e.RunHarness(fn)
	hr := HarnessResult{Harness: fn.Name(), Pkg: pkgPath, Paths: e.pathsDone, Infeasible: e.pathsInfeas, Aborts: e.aborts,
		Reaches: e.reaches, Emits: e.emits, ReachCounts: e.reachSeen, Labels: map[string]int{}}
	seenViol := map[string]int{}
	for _, o := range e.obligations {
		hr.Obligations++
		hr.Labels[o.Label]++
		switch o.Verdict {
		case "unsat":
			hr.Discharged++
		case "trivial":
			hr.Discharged++
			hr.Trivial++
		case "sat":
			k := o.Label + "|" + o.Site
			seenViol[k]++
			if seenViol[k] <= 5 {
				hr.Violations = append(hr.Violations, o)
			} else {
				// keep count only
				hr.Violations = append(hr.Violations, Obligation{Harness: o.Harness, Label: o.Label, Kind: o.Kind, Site: o.Site, Verdict: "sat", Msg: "(more of the same)", Model: o.Model, Path: o.Path})
			}
		default:
			hr.Inconclusive = append(hr.Inconclusive, o)
		}
	}
	hr.WallS = time.Since(t0).Seconds()
	hr.Queries = statQueries - q0
	hr.PanicChecks = e.panicChecks
	hr.Fallback = statFallback
	hr.SolverS = float64(statSolverNS-s0) / 1e9
	return hr
}

func writeResult(path string, res RunResult) {
	b, _ := json.MarshalIndent(res, "", " ")
	if path == "" {
		os.Stdout.Write(b)
		return
	}
	os.WriteFile(path, b, 0644)
}

func orInt(a, b int) int {
	if a != 0 {
		return a
	}
	return b
}
func orInt64(a, b int64) int64 {
	if a != 0 {
		return a
	}
	return b
}

func fatal(format string, args ...interface{}) {
	fmt.Fprintf(os.Stderr, "symgo: "+format+"\n", args...)
	os.Exit(2)
}
