package main

import (
	"fmt"
	"go/constant"
	"go/token"
	"go/types"
	"math/big"
	"runtime"

	"golang.org/x/tools/go/ssa"
)

func runtimeStack(buf []byte) int { return runtime.Stack(buf, false) }

func constantBool(c *ssa.Const) bool     { return constant.BoolVal(c.Value) }
func constantString(c *ssa.Const) string { return constant.StringVal(c.Value) }

// NativeFn is a callable engine-native function value.
type NativeFn struct {
	Name string
	F    func(p *Path, args []Value) Value
}

func isPoison(v Value) bool { _, ok := v.(Poison); return ok }

// ---------------------------------------------------------------- unary

func (p *Path) unop(fr *frame, in *ssa.UnOp) Value {
	x := p.get(fr, in.X)
	if isPoison(x) && p.lenient > 0 {
		return x
	}
	switch in.Op {
	case token.MUL: // load
		if eo, isErr := x.(*ErrObj); isErr {
			if eo == nil {
				p.panicNow(p.site(in.Pos()), "nil pointer dereference (load of *errors.Error)", nil)
			}
			return eo // registered errors are handled by reference
		}
		ptr, ok := x.(*Value)
		if !ok {
			p.unsupported("load from %T", x)
		}
		if ptr == nil {
			p.panicNow(p.site(in.Pos()), "nil pointer dereference (load "+in.X.Type().String()+")", nil)
		}
		return copyVal(*ptr)
	case token.NOT:
		return Not(x.(*Term))
	case token.SUB:
		switch x := x.(type) {
		case *Term:
			return p.wrap(Neg(x), in.Type())
		case FloatV:
			return x
		}
	case token.XOR:
		if t, ok := x.(*Term); ok {
			return p.wrap(Sub(Neg(t), TInt64(1)), in.Type())
		}
	}
	p.unsupported("unop %s on %T", in.Op, x)
	return nil
}

// ---------------------------------------------------------------- binary

func isStringType(t types.Type) bool {
	b, ok := t.Underlying().(*types.Basic)
	return ok && b.Info()&types.IsString != 0
}
func isUnsigned(t types.Type) bool {
	b, ok := t.Underlying().(*types.Basic)
	return ok && b.Info()&types.IsUnsigned != 0
}

func (p *Path) binop(op token.Token, xt types.Type, x, y Value, pos token.Pos, rt types.Type) Value {
	if p.lenient > 0 && (isPoison(x) || isPoison(y)) {
		return Poison{"binop"}
	}
	switch op {
	case token.EQL:
		return p.equalValues(x, y)
	case token.NEQ:
		return Not(p.equalValues(x, y))
	}
	if _, ok := x.(FloatV); ok {
		switch op {
		case token.LSS, token.LEQ, token.GTR, token.GEQ:
			p.unsupported("float comparison")
		}
		return FloatV{}
	}
	a, ok1 := x.(*Term)
	b, ok2 := y.(*Term)
	if !ok1 || !ok2 {
		p.unsupported("binop %s on %T,%T", op, x, y)
	}
	if isStringType(xt) {
		switch op {
		case token.ADD:
			return Concat(a, b)
		case token.LSS:
			return StrLt(a, b)
		case token.GTR:
			return StrLt(b, a)
		case token.LEQ:
			return Not(StrLt(b, a))
		case token.GEQ:
			return Not(StrLt(a, b))
		}
		p.unsupported("string binop %s", op)
	}
	if a.sort == SBool {
		switch op {
		case token.AND, token.LAND:
			return And(a, b)
		case token.OR, token.LOR:
			return Or(a, b)
		}
		p.unsupported("bool binop %s", op)
	}
	switch op {
	case token.ADD:
		return p.wrap(Add(a, b), xt)
	case token.SUB:
		return p.wrap(Sub(a, b), xt)
	case token.MUL:
		return p.wrap(Mul(a, b), xt)
	case token.QUO:
		p.panicIf(Eq(b, TInt64(0)), p.site(pos), "integer divide by zero")
		return p.wrap(p.tdiv(a, b), xt)
	case token.REM:
		p.panicIf(Eq(b, TInt64(0)), p.site(pos), "integer divide by zero")
		q := p.tdiv(a, b)
		return p.wrap(Sub(a, Mul(q, b)), xt)
	case token.LSS:
		return Lt(a, b)
	case token.LEQ:
		return Le(a, b)
	case token.GTR:
		return Lt(b, a)
	case token.GEQ:
		return Le(b, a)
	case token.SHL:
		if b.IsConst() {
			return p.wrap(Mul(a, TInt(new(big.Int).Lsh(bigOne, uint(b.i.Int64())))), xt)
		}
	case token.SHR:
		if b.IsConst() {
			d := TInt(new(big.Int).Lsh(bigOne, uint(b.i.Int64())))
			return Div(a, d) // floor division = arithmetic shift
		}
	case token.AND:
		if a.IsConst() && b.IsConst() {
			return TInt(new(big.Int).And(a.i, b.i))
		}
		// x & (2^k-1) for non-negative x
		if b.IsConst() {
			m := new(big.Int).Add(b.i, bigOne)
			if m.BitLen() > 1 && new(big.Int).And(m, b.i).Sign() == 0 && a.lo != nil && a.lo.Sign() >= 0 {
				return Mod(a, TInt(m))
			}
		}
	case token.OR:
		if a.IsConst() && b.IsConst() {
			return TInt(new(big.Int).Or(a.i, b.i))
		}
	case token.XOR:
		if a.IsConst() && b.IsConst() {
			return TInt(new(big.Int).Xor(a.i, b.i))
		}
	case token.AND_NOT:
		if a.IsConst() && b.IsConst() {
			return TInt(new(big.Int).AndNot(a.i, b.i))
		}
	}
	p.unsupported("int binop %s on symbolic operands", op)
	return nil
}

// proves asks the solver whether the path condition implies c (cached per path; unknown = not proven).
func (p *Path) proves(c *Term) bool {
	if c == TTrue {
		return true
	}
	if c == TFalse {
		return false
	}
	if p.lenient > 0 {
		return false
	}
	if p.proved == nil {
		p.proved = map[int]int8{}
	}
	// results are cached both ways so that the same question gets the same answer everywhere on the path
	// (term shapes then agree between the two runs of relational harnesses even when a query times out)
	if r, ok := p.proved[c.id]; ok {
		return r > 0
	}
	if p.knobs["no_solver_simplify"] != 0 {
		return false
	}
	p.ensureSync()
	s := p.w.inc
	s.Push()
	s.Assert(Not(c))
	r := s.Check(p.eng.cfg.FeasTimeoutMS)
	s.Pop()
	if r == "unsat" {
		p.proved[c.id] = 1
		return true
	}
	p.proved[c.id] = -1
	return false
}

// nonneg: structural sign reasoning (products / sums of non-negative parts) before falling back on the solver.
func (p *Path) nonneg(t *Term, depth int) bool {
	if t.lo != nil && t.lo.Sign() >= 0 {
		return true
	}
	if t.hi != nil && t.hi.Sign() < 0 {
		return false
	}
	if depth < 4 {
		switch t.op {
		case "*":
			if p.nonneg(t.args[0], depth+1) && p.nonneg(t.args[1], depth+1) {
				return true
			}
		case "lin":
			if t.i.Sign() >= 0 {
				all := true
				for i, a := range t.args {
					if t.coefs[i].Sign() < 0 || !p.nonneg(a, depth+1) {
						all = false
						break
					}
				}
				if all {
					return true
				}
			}
		}
	}
	return p.proves(Ge(t, TInt64(0)))
}

// wrap reduces x to the machine type t; the wrap-around expression is elided when the interval of x, or the
// solver under the current path condition, shows that x fits.
func (p *Path) wrap(x *Term, t types.Type) *Term {
	b := basicOf(t)
	if b == nil {
		return x
	}
	r, ok := intRanges[b.Kind()]
	if !ok {
		return x
	}
	if x.IsConst() || (x.lo != nil && x.hi != nil && x.lo.Cmp(r.lo) >= 0 && x.hi.Cmp(r.hi) <= 0) {
		return wrapInt(x, t)
	}
	if p.proves(And(Ge(x, TInt(r.lo)), Le(x, TInt(r.hi)))) {
		return x
	}
	return wrapInt(x, t)
}

// tdiv: Go truncated division a / b with b != 0 already ensured.
func (p *Path) tdiv(a, b *Term) *Term {
	if a.IsConst() && b.IsConst() {
		return TInt(new(big.Int).Quo(a.i, b.i))
	}
	aNonneg := p.nonneg(a, 0)
	aNonpos := !aNonneg && ((a.hi != nil && a.hi.Sign() <= 0) || p.proves(Le(a, TInt64(0))))
	sdiv := func(a, b *Term) *Term { // b > 0
		switch {
		case aNonneg:
			return p.divQR(a, b)
		case aNonpos:
			return Neg(p.divQR(Neg(a), b))
		}
		return Ite(Ge(a, TInt64(0)), p.divQR(a, b), Neg(p.divQR(Neg(a), b)))
	}
	if b.IsConst() {
		if b.i.Sign() > 0 {
			return sdiv(a, b)
		}
		return Neg(sdiv(a, TInt(new(big.Int).Neg(b.i))))
	}
	if (b.lo != nil && b.lo.Sign() > 0) || p.proves(Gt(b, TInt64(0))) {
		return sdiv(a, b)
	}
	if (b.hi != nil && b.hi.Sign() < 0) || p.proves(Lt(b, TInt64(0))) {
		return Neg(sdiv(a, Neg(b)))
	}
	// general signs
	q := sdiv(a, Abs(b))
	return Ite(Gt(b, TInt64(0)), q, Neg(q))
}

// divQR returns floor(a/b) for a >= 0, b > 0 in quotient–remainder form: fresh q, r with a = q*b + r, 0 <= r < b.
// When a may be negative on infeasible ite arms the constraint is guarded.
func (p *Path) divQR(a, b *Term) *Term {
	if b.IsConst() {
		return Div(a, b)
	}
	if p.knobs["nested_div"] != 0 {
		return Div(a, b)
	}
	if x := exactQuot(a, b); x != nil {
		return x
	}
	name := fmt.Sprintf("q!%d_%d", a.id, b.id)
	rname := fmt.Sprintf("r!%d_%d", a.id, b.id)
	if q, ok := p.divCache[name]; ok {
		return q
	}
	guard := And(Ge(a, TInt64(0)), Gt(b, TInt64(0)))
	if guard != TTrue && p.nonneg(a, 0) && ((b.lo != nil && b.lo.Sign() > 0) || p.proves(Gt(b, TInt64(0)))) {
		guard = TTrue
	}
	var q, r *Term
	under := func(t *Term) *Term { return Implies(guard, t) }
	if guard == TTrue {
		// operands known non-negative / positive: q and r inherit intervals; bounds asserted unfolded
		var rhi *big.Int
		if b.hi != nil {
			rhi = new(big.Int).Sub(b.hi, bigOne)
		}
		q = TSymRange(name, bigZero, a.hi)
		r = TSymRange(rname, bigZero, rhi)
		p.assume(And(build("=", SBool, a, Add(Mul(q, b), r)), build("<=", SBool, TInt64(0), r), build("<", SBool, r, b), build("<=", SBool, TInt64(0), q)))
	} else {
		q = TSym(name+"g", SInt)
		r = TSym(rname+"g", SInt)
		p.assume(under(And(Eq(a, Add(Mul(q, b), r)), Ge(r, TInt64(0)), Lt(r, b), Ge(q, TInt64(0)))))
	}
	if p.divCache == nil {
		p.divCache = map[string]*Term{}
	}
	p.divCache[name] = q
	// sound lemma instances that NIA solvers do not find by themselves
	for _, o := range p.divs {
		if o.b == b && o.a != a {
			// floor division is monotone in the dividend
			p.assume(under(Implies(o.g, And(Implies(Le(a, o.a), Le(q, o.q)), Implies(Le(o.a, a), Le(o.q, q))))))
			// products sharing a non-negative factor are ordered like the other factor
			c1, m1 := linFactor(a)
			c2, m2 := linFactor(o.a)
			if m1.op == "*" && m2.op == "*" && c1.Cmp(c2) == 0 && c1.Sign() > 0 {
				for i := 0; i < 2; i++ {
					for j := 0; j < 2; j++ {
						if m1.args[i] == m2.args[j] {
							u, v1, v2 := m1.args[i], m1.args[1-i], m2.args[1-j]
							p.assume(Implies(Ge(u, TInt64(0)), And(Implies(Le(v1, v2), Le(a, o.a)), Implies(Le(v2, v1), Le(o.a, a)))))
						}
					}
				}
			}
		}
	}
	p.divs = append(p.divs, divRec{a, b, q, guard})
	// a = c*(u*v): comparing one factor with the divisor bounds the quotient by c*(other factor)
	if c, at := linFactor(a); at.op == "*" && c.Sign() > 0 {
		for k := 0; k < 2; k++ {
			u, v := at.args[k], at.args[1-k]
			cu := Mul(TInt(c), u)
			p.assume(under(Implies(Ge(u, TInt64(0)), And(Implies(Eq(v, b), Eq(q, cu)), Implies(Le(v, b), Le(q, cu)), Implies(Ge(v, b), Ge(q, cu))))))
		}
	}
	return q
}

type divRec struct{ a, b, q, g *Term }

func (p *Path) addAxiom(key string, ax *Term) {
	if p.findings["ax:"+key] {
		return
	}
	p.findings["ax:"+key] = true
	p.assume(ax)
}

// ---------------------------------------------------------------- equality

func (p *Path) equalValues(x, y Value) *Term {
	if p.lenient > 0 && (isPoison(x) || isPoison(y)) {
		return TFalse
	}
	switch a := x.(type) {
	case nil:
		return TBool(isNilValue(y))
	case *Term:
		if b, ok := y.(*Term); ok {
			return Eq(a, b)
		}
	case FloatV:
		p.unsupported("float equality")
	case IntV:
		if b, ok := y.(IntV); ok {
			// struct comparison of math.Int compares the big.Int pointers
			if a.Nil && b.Nil {
				return TTrue
			}
			return TBool(!a.Nil && !b.Nil && a.ID == b.ID && a.ID != 0)
		}
	case DecV:
		if b, ok := y.(DecV); ok {
			if a.Nil && b.Nil {
				return TTrue
			}
			return TBool(!a.Nil && !b.Nil && a.ID == b.ID && a.ID != 0)
		}
	case TimeV:
		if b, ok := y.(TimeV); ok {
			return Eq(a.NS, b.NS)
		}
	case *Value:
		switch b := y.(type) {
		case *Value:
			return TBool(a == b)
		case nil:
			return TBool(a == nil)
		}
	case Struct:
		if b, ok := y.(Struct); ok && len(a) == len(b) {
			r := TTrue
			for i := range a {
				r = And(r, p.equalValues(a[i], b[i]))
			}
			return r
		}
	case Array:
		if b, ok := y.(Array); ok && len(a) == len(b) {
			r := TTrue
			for i := range a {
				r = And(r, p.equalValues(a[i], b[i]))
			}
			return r
		}
	case SliceV:
		if isNilValue(y) {
			return TBool(a.A == nil)
		}
		if a.A == nil {
			return TBool(isNilValue(y))
		}
	case BytesV, BlobV:
		if isNilValue(y) {
			return TFalse
		}
	case *MapObj:
		if isNilValue(y) {
			return TBool(a == nil)
		}
		if a == nil {
			return TBool(isNilValue(y))
		}
	case *ssa.Function:
		if isNilValue(y) {
			return TBool(a == nil)
		}
	case *ClosureV:
		if isNilValue(y) {
			return TFalse
		}
	case *ErrObj:
		if b, ok := y.(*ErrObj); ok {
			return TBool(a == b)
		}
	case *CtxObj:
		p.unsupported("context equality")
	case Iface:
		b, ok := y.(Iface)
		if !ok {
			break
		}
		if a.T == nil || b.T == nil {
			return TBool(a.T == nil && b.T == nil)
		}
		if !types.Identical(a.T, b.T) {
			return TFalse
		}
		return p.equalValues(a.V, b.V)
	}
	p.unsupported("equality of %T and %T", x, y)
	return nil
}

func isNilValue(v Value) bool {
	switch v := v.(type) {
	case nil:
		return true
	case *Value:
		return v == nil
	case SliceV:
		return v.A == nil
	case *MapObj:
		return v == nil
	case Iface:
		return v.T == nil
	case *ssa.Function:
		return v == nil
	}
	return false
}

// ---------------------------------------------------------------- conversions

func (p *Path) conv(dst, src types.Type, x Value) Value {
	if isPoison(x) && p.lenient > 0 {
		return x
	}
	du, su := dst.Underlying(), src.Underlying()
	switch d := du.(type) {
	case *types.Basic:
		switch {
		case d.Info()&types.IsInteger != 0:
			switch v := x.(type) {
			case *Term:
				if v.sort == SInt {
					return p.wrap(v, dst)
				}
			case FloatV:
				p.unsupported("float to int conversion")
			}
		case d.Info()&types.IsFloat != 0:
			return FloatV{}
		case d.Info()&types.IsString != 0:
			switch v := x.(type) {
			case *Term:
				if v.sort == SString {
					return v
				}
				if v.sort == SInt && v.IsConst() {
					return TStr(string(rune(v.i.Int64())))
				}
			case SliceV:
				// []byte or []rune -> string
				if sl, ok := su.(*types.Slice); ok {
					if b, ok := sl.Elem().Underlying().(*types.Basic); ok && b.Kind() == types.Uint8 {
						bs := make([]byte, len(v.A))
						for i, e := range v.A {
							t := e.(*Term)
							if !t.IsConst() {
								p.unsupported("string of symbolic bytes")
							}
							bs[i] = byte(t.i.Int64())
						}
						return TStr(string(bs))
					}
				}
			case BytesV:
				return v.S
			}
		case d.Kind() == types.UnsafePointer:
			return x
		}
	case *types.Slice:
		if b, ok := d.Elem().Underlying().(*types.Basic); ok && b.Kind() == types.Uint8 {
			switch v := x.(type) {
			case *Term:
				if v.sort == SString {
					if v.IsConst() {
						a := make([]Value, len(v.s))
						for i := 0; i < len(v.s); i++ {
							a[i] = TInt64(int64(v.s[i]))
						}
						return SliceV{a}
					}
					return BytesV{v}
				}
			case SliceV, BytesV, BlobV:
				return v
			}
		}
		if _, ok := x.(SliceV); ok {
			return x
		}
	case *types.Pointer:
		return x
	}
	p.unsupported("conversion %s -> %s (%T)", src, dst, x)
	return nil
}

// ---------------------------------------------------------------- slices / indexing

func (p *Path) concreteIndex(v Value, max int64, what string) int64 {
	if v == nil {
		return -1
	}
	t := v.(*Term)
	if t.IsConst() {
		return t.i.Int64()
	}
	return p.concretizeInt(t, -1, max, what)
}

func (p *Path) sliceOp(fr *frame, in *ssa.Slice) Value {
	x := p.get(fr, in.X)
	if isPoison(x) && p.lenient > 0 {
		return x
	}
	var lo, hi, mx int64 = 0, -1, -1
	switch v := x.(type) {
	case SliceV:
		n := int64(len(v.A))
		c := int64(cap(v.A))
		if in.Low != nil {
			lo = p.concreteIndex(p.get(fr, in.Low), c, "slice low")
		}
		hi = n
		if in.High != nil {
			hi = p.concreteIndex(p.get(fr, in.High), c, "slice high")
		}
		mx = c
		if in.Max != nil {
			mx = p.concreteIndex(p.get(fr, in.Max), c, "slice max")
		}
		if lo < 0 || hi < lo || hi > mx || mx > c {
			p.panicNow(p.site(in.Pos()), fmt.Sprintf("slice bounds out of range [%d:%d:%d] cap %d", lo, hi, mx, c), nil)
		}
		if v.A == nil {
			return SliceV{}
		}
		return SliceV{v.A[lo:hi:mx]}
	case *Value: // pointer to array
		if v == nil {
			p.panicNow(p.site(in.Pos()), "nil array pointer slice", nil)
		}
		arr := (*v).(Array)
		n := int64(len(arr))
		if in.Low != nil {
			lo = p.concreteIndex(p.get(fr, in.Low), n, "slice low")
		}
		hi = n
		if in.High != nil {
			hi = p.concreteIndex(p.get(fr, in.High), n, "slice high")
		}
		if lo < 0 || hi < lo || hi > n {
			p.panicNow(p.site(in.Pos()), "slice bounds out of range", nil)
		}
		return SliceV{[]Value(arr)[lo:hi:n]}
	case *Term: // string
		if v.sort != SString {
			break
		}
		if !v.IsConst() {
			if in.Low == nil && in.High == nil {
				return v
			}
			p.unsupported("substring of symbolic string")
		}
		n := int64(len(v.s))
		if in.Low != nil {
			lo = p.concreteIndex(p.get(fr, in.Low), n, "slice low")
		}
		hi = n
		if in.High != nil {
			hi = p.concreteIndex(p.get(fr, in.High), n, "slice high")
		}
		if lo < 0 || hi < lo || hi > n {
			p.panicNow(p.site(in.Pos()), "string slice bounds out of range", nil)
		}
		return TStr(v.s[lo:hi])
	case BytesV:
		if in.Low == nil && in.High == nil {
			return v
		}
		cp, full := constPrefix(v.S)
		lo = 0
		if in.Low != nil {
			lo = p.concreteIndex(p.get(fr, in.Low), 1<<20, "slice low")
		}
		if in.High != nil {
			hi = p.concreteIndex(p.get(fr, in.High), 1<<20, "slice high")
			if int64(len(cp)) >= hi && lo <= hi {
				return p.conv(types.NewSlice(types.Typ[types.Uint8]), types.Typ[types.String], TStr(cp[lo:hi]))
			}
			p.unsupported("sub-slice [%d:%d] of symbolic bytes %v", lo, hi, v.S)
		}
		// v[lo:]
		if full {
			if lo > int64(len(cp)) {
				p.panicNow(p.site(in.Pos()), "slice bounds out of range", nil)
			}
			return p.conv(types.NewSlice(types.Typ[types.Uint8]), types.Typ[types.String], TStr(cp[lo:]))
		}
		if int64(len(cp)) >= lo && v.S.op == "str.++" && v.S.args[0].IsConst() && int64(len(v.S.args[0].s)) >= lo {
			rest := append([]*Term{TStr(v.S.args[0].s[lo:])}, v.S.args[1:]...)
			return BytesV{Concat(rest...)}
		}
		p.unsupported("sub-slice [%d:] of symbolic bytes %v", lo, v.S)
	case BlobV:
		if in.Low == nil && in.High == nil {
			return v
		}
		p.unsupported("sub-slice of blob")
	}
	p.unsupported("slice of %T", x)
	return nil
}

func (p *Path) indexAddr(fr *frame, in *ssa.IndexAddr) Value {
	x := p.get(fr, in.X)
	if isPoison(x) && p.lenient > 0 {
		return x
	}
	idx := p.get(fr, in.Index).(*Term)
	switch v := x.(type) {
	case SliceV:
		n := int64(len(v.A))
		i := p.indexInRange(idx, n, in.Pos())
		return &v.A[i]
	case *Value:
		if v == nil {
			p.panicNow(p.site(in.Pos()), "nil pointer dereference (array index)", nil)
		}
		arr := (*v).(Array)
		i := p.indexInRange(idx, int64(len(arr)), in.Pos())
		return &arr[i]
	case BytesV, BlobV:
		p.unsupported("index into opaque bytes")
	}
	p.unsupported("IndexAddr on %T", x)
	return nil
}

func (p *Path) indexInRange(idx *Term, n int64, pos token.Pos) int64 {
	if idx.IsConst() {
		i := idx.i.Int64()
		if !idx.i.IsInt64() || i < 0 || i >= n {
			p.panicNow(p.site(pos), fmt.Sprintf("index out of range [%s] with length %d", idx.i, n), nil)
		}
		return i
	}
	oob := Or(Lt(idx, TInt64(0)), Ge(idx, TInt64(n)))
	p.panicIf(oob, p.site(pos), "index out of range (symbolic index)")
	return p.concretizeInt(idx, 0, n-1, "index")
}

func (p *Path) index(fr *frame, in *ssa.Index) Value {
	x := p.get(fr, in.X)
	idx := p.get(fr, in.Index).(*Term)
	switch v := x.(type) {
	case Array:
		i := p.indexInRange(idx, int64(len(v)), in.Pos())
		return copyVal(v[i])
	case *Term:
		if v.sort == SString && v.IsConst() {
			i := p.indexInRange(idx, int64(len(v.s)), in.Pos())
			return TInt64(int64(v.s[i]))
		}
	}
	p.unsupported("Index on %T", x)
	return nil
}

// ---------------------------------------------------------------- maps

func (p *Path) mapFind(m *MapObj, key Value) int {
	if m == nil {
		return -1
	}
	for i, k := range m.Keys {
		eq := p.equalValues(k, key)
		if p.branch(eq) {
			return i
		}
	}
	return -1
}

func (p *Path) mapSet(m *MapObj, key, val Value) {
	if i := p.mapFind(m, key); i >= 0 {
		m.Vals[i] = val
		return
	}
	m.Keys = append(m.Keys, key)
	m.Vals = append(m.Vals, val)
}

func (p *Path) mapDelete(m *MapObj, key Value) {
	if i := p.mapFind(m, key); i >= 0 {
		m.Keys = append(m.Keys[:i:i], m.Keys[i+1:]...)
		m.Vals = append(m.Vals[:i:i], m.Vals[i+1:]...)
	}
}

func (p *Path) lookup(fr *frame, in *ssa.Lookup) Value {
	x := p.get(fr, in.X)
	k := p.get(fr, in.Index)
	if isPoison(x) && p.lenient > 0 {
		return x
	}
	switch m := x.(type) {
	case *MapObj:
		vt := in.X.Type().Underlying().(*types.Map).Elem()
		i := p.mapFind(m, k)
		var v Value
		if i >= 0 {
			v = copyVal(m.Vals[i])
		} else {
			v = zero(vt)
		}
		if in.CommaOk {
			return Tuple{v, TBool(i >= 0)}
		}
		return v
	case *Term:
		if m.sort == SString && m.IsConst() {
			i := p.indexInRange(k.(*Term), int64(len(m.s)), in.Pos())
			return TInt64(int64(m.s[i]))
		}
	}
	p.unsupported("Lookup on %T", x)
	return nil
}

type iterV struct {
	m     *MapObj
	order []int
	pos   int
	str   string
	isStr bool
}

func (p *Path) rangeIter(fr *frame, x Value) Value {
	switch v := x.(type) {
	case *MapObj:
		it := &iterV{m: v}
		n := 0
		if v != nil {
			n = len(v.Keys)
		}
		for i := 0; i < n; i++ {
			it.order = append(it.order, i)
		}
		if p.eng.cfg.PermuteMaps && n > 1 && p.lenient == 0 {
			// fork over all iteration orders (Go's map order is unspecified)
			perms := permutations(n)
			conds := make([]*Term, len(perms))
			for i := range conds {
				conds[i] = TSym(fmt.Sprintf("maporder!%d", p.nextFresh()), SBool) // free choice
			}
			ch := p.freeChoice(len(perms))
			it.order = perms[ch]
		}
		return it
	case *Term:
		if v.sort == SString && v.IsConst() {
			return &iterV{isStr: true, str: v.s}
		}
	}
	p.unsupported("range over %T", x)
	return nil
}

func (p *Path) nextFresh() int { p.fresh++; return p.fresh }

// freeChoice forks n ways without any condition (environment nondeterminism).
func (p *Path) freeChoice(n int) int {
	if n <= 1 {
		return 0
	}
	id := p.nextFresh()
	sel := TSymRange(fmt.Sprintf("choice!%d", id), bigZero, big.NewInt(int64(n-1)))
	conds := make([]*Term, n)
	for i := range conds {
		conds[i] = Eq(sel, TInt64(int64(i)))
	}
	p.assume(And(Ge(sel, TInt64(0)), Le(sel, TInt64(int64(n-1)))))
	return p.decide(conds)
}

func permutations(n int) [][]int {
	if n == 0 {
		return [][]int{{}}
	}
	var out [][]int
	var rec func(cur []int, used []bool)
	rec = func(cur []int, used []bool) {
		if len(cur) == n {
			out = append(out, append([]int(nil), cur...))
			return
		}
		for i := 0; i < n; i++ {
			if !used[i] {
				used[i] = true
				rec(append(cur, i), used)
				used[i] = false
			}
		}
	}
	rec(nil, make([]bool, n))
	return out
}

func (it *iterV) next(p *Path, in *ssa.Next) Value {
	if it.isStr {
		if it.pos >= len(it.str) {
			return Tuple{TFalse, TInt64(0), TInt64(0)}
		}
		// bytes as runes (ASCII only)
		i := it.pos
		it.pos++
		return Tuple{TTrue, TInt64(int64(i)), TInt64(int64(it.str[i]))}
	}
	for it.pos < len(it.order) {
		i := it.order[it.pos]
		it.pos++
		if i < len(it.m.Keys) {
			return Tuple{TTrue, it.m.Keys[i], copyVal(it.m.Vals[i])}
		}
	}
	return Tuple{TFalse, nil, nil}
}

// ---------------------------------------------------------------- type assertions

func (p *Path) implements(dyn types.Type, v Value, iface *types.Interface) bool {
	if _, ok := v.(*ErrObj); ok {
		// engine error objects implement error (and nothing else with more methods)
		if iface.NumMethods() == 0 {
			return true
		}
		return iface.NumMethods() == 1 && iface.Method(0).Name() == "Error"
	}
	return types.Implements(dyn, iface)
}

func (p *Path) typeAssert(fr *frame, in *ssa.TypeAssert) Value {
	x := p.get(fr, in.X)
	if isPoison(x) && p.lenient > 0 {
		return x
	}
	iv, ok := x.(Iface)
	if !ok {
		p.unsupported("TypeAssert on %T", x)
	}
	var okv bool
	var res Value
	if it, isI := in.AssertedType.Underlying().(*types.Interface); isI {
		okv = iv.T != nil && p.implements(iv.T, iv.V, it)
		res = iv
		if !okv {
			res = Iface{}
		}
	} else {
		okv = iv.T != nil && types.Identical(iv.T, in.AssertedType)
		if okv {
			res = iv.V
		} else {
			res = zero(in.AssertedType)
		}
	}
	if in.CommaOk {
		return Tuple{res, TBool(okv)}
	}
	if !okv {
		d := "nil"
		if iv.T != nil {
			d = iv.T.String()
		}
		p.panicNow(p.site(in.Pos()), fmt.Sprintf("interface conversion: interface is %s, not %s", d, in.AssertedType), nil)
	}
	return res
}

// ---------------------------------------------------------------- builtins

func (p *Path) callBuiltin(fr *frame, b *ssa.Builtin, args []Value, pos token.Pos) Value {
	if p.lenient > 0 {
		for _, a := range args {
			if isPoison(a) {
				return Poison{"builtin"}
			}
		}
	}
	switch b.Name() {
	case "len":
		switch v := args[0].(type) {
		case SliceV:
			return TInt64(int64(len(v.A)))
		case *Term:
			return StrLen(v)
		case BytesV:
			return StrLen(v.S)
		case BlobV:
			return TUF("bloblen", SInt, TInt64(int64(v.ID)))
		case *MapObj:
			if v == nil {
				return TInt64(0)
			}
			return TInt64(int64(len(v.Keys)))
		case Array:
			return TInt64(int64(len(v)))
		case *Value:
			if v != nil {
				if a, ok := (*v).(Array); ok {
					return TInt64(int64(len(a)))
				}
			}
		}
	case "cap":
		switch v := args[0].(type) {
		case SliceV:
			return TInt64(int64(cap(v.A)))
		case Array:
			return TInt64(int64(len(v)))
		}
	case "append":
		return p.appendOp(args[0], args[1])
	case "copy":
		dst, ok1 := args[0].(SliceV)
		if !ok1 {
			break
		}
		switch src := args[1].(type) {
		case SliceV:
			n := copy(dst.A, src.A)
			return TInt64(int64(n))
		case *Term:
			if src.IsConst() {
				n := 0
				for i := 0; i < len(src.s) && i < len(dst.A); i++ {
					dst.A[i] = TInt64(int64(src.s[i]))
					n++
				}
				return TInt64(int64(n))
			}
		}
	case "delete":
		m := args[0].(*MapObj)
		if m != nil {
			p.mapDelete(m, args[1])
		}
		return nil
	case "panic":
		p.panicNow(p.site(pos), "panic: "+showValue(args[0], 3), args[0])
	case "recover":
		// recover is meaningful only in a deferred call while the *caller's* frame is panicking
		if fr != nil && fr.caller != nil && fr.caller.panicking {
			pv := fr.caller.panicVal
			fr.caller.panicking = false
			if pv.val != nil {
				if iv, ok := pv.val.(Iface); ok {
					return iv
				}
				return Iface{T: types.Typ[types.String], V: TStr(pv.msg)}
			}
			return Iface{T: types.Typ[types.String], V: TStr(pv.msg)}
		}
		return Iface{}
	case "print", "println":
		return nil
	case "ssa:deferstack":
		return nil
	case "ssa:wrapnilchk":
		if ptr, ok := args[0].(*Value); ok && ptr == nil {
			p.panicNow(p.site(pos), "value method "+showValue(args[1], 2)+"."+showValue(args[2], 2)+" called using nil pointer", nil)
		}
		return args[0]
	case "min", "max":
		if len(args) == 2 {
			a, ok1 := args[0].(*Term)
			c, ok2 := args[1].(*Term)
			if ok1 && ok2 && a.sort == SInt {
				if b.Name() == "min" {
					return Ite(Le(a, c), a, c)
				}
				return Ite(Ge(a, c), a, c)
			}
		}
	}
	p.unsupported("builtin %s on %T", b.Name(), args[0])
	return nil
}

func (p *Path) appendOp(a0, a1 Value) Value {
	switch s := a0.(type) {
	case SliceV:
		switch t := a1.(type) {
		case SliceV:
			if len(t.A) == 0 {
				return s
			}
			na := append(s.A, t.A...)
			return SliceV{na}
		case *Term: // append([]byte, string...)
			if t.IsConst() {
				na := s.A
				for i := 0; i < len(t.s); i++ {
					na = append(na, TInt64(int64(t.s[i])))
				}
				if na == nil {
					return SliceV{}
				}
				return SliceV{na}
			}
			return BytesV{Concat(p.bytesTerm(s), t)}
		case BytesV:
			return BytesV{Concat(p.bytesTerm(s), t.S)}
		}
	case BytesV:
		switch t := a1.(type) {
		case SliceV:
			return BytesV{Concat(s.S, p.bytesTerm(t))}
		case BytesV:
			return BytesV{Concat(s.S, t.S)}
		case *Term:
			return BytesV{Concat(s.S, t)}
		}
	}
	p.unsupported("append(%T, %T)", a0, a1)
	return nil
}

// bytesTerm converts a concrete byte slice to a string term.
func (p *Path) bytesTerm(s SliceV) *Term {
	bs := make([]byte, len(s.A))
	for i, e := range s.A {
		t, ok := e.(*Term)
		if !ok || !t.IsConst() {
			p.unsupported("symbolic byte in byte slice")
		}
		bs[i] = byte(t.i.Int64())
	}
	return TStr(string(bs))
}

// bytesToTerm converts any byte-slice-like value to a string term.
func (p *Path) bytesToTerm(v Value) *Term {
	switch v := v.(type) {
	case SliceV:
		return p.bytesTerm(v)
	case BytesV:
		return v.S
	case *Term:
		return v
	}
	p.unsupported("bytes of %T", v)
	return nil
}

// exactQuot: if a is syntactically a multiple of b (every monomial of a contains b as a factor) returns a/b.
func exactQuot(a, b *Term) *Term {
	l := toLin(a)
	if l.k.Sign() != 0 || len(l.atoms) == 0 {
		return nil
	}
	r := TInt64(0)
	for i, at := range l.atoms {
		var other *Term
		switch {
		case at == b:
			other = TInt64(1)
		case at.op == "*" && at.args[0] == b:
			other = at.args[1]
		case at.op == "*" && at.args[1] == b:
			other = at.args[0]
		default:
			return nil
		}
		r = Add(r, Mul(TInt(l.coefs[i]), other))
	}
	return r
}
