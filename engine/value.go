package main

// Value universe of the symbolic interpreter. Scalars (bool, machine ints, strings) are
// *Term (constant or symbolic). Aggregates are concrete Go structures whose leaves are values.

import (
	"fmt"
	"go/types"
	"math/big"
	"sort"
	"strings"

	"golang.org/x/tools/go/ssa"
)

type Value interface{}

type Struct []Value
type Array []Value
type Tuple []Value

// SliceV: A == nil means nil slice. Go slicing of A gives aliasing and capacity semantics.
type SliceV struct{ A []Value }

// BytesV is an opaque immutable byte string whose content is the SMT string S (bytes = chars).
type BytesV struct{ S *Term }

// BlobV is the result of marshalling a message: a normalised deep copy.
type BlobV struct {
	Msg  Value
	Type types.Type
	ID   int
}

type IntV struct {
	Nil bool
	V   *Term
	ID  int
}
type DecV struct {
	Nil bool
	V   *Term // 10^18-scaled
	ID  int
}
type TimeV struct{ NS *Term } // nanoseconds since Unix epoch (mathematical integer)
type FloatV struct{}

type MapObj struct {
	Keys []Value
	Vals []Value
}

type Iface struct {
	T types.Type // dynamic type; nil for nil interface
	V Value
}

type ClosureV struct {
	Fn  *ssa.Function
	Env []Value
}

// CtxObj models sdk.Context: an immutable bag of fields.
type CtxObj struct{ F map[string]Value }

// ErrObj models an error value created by errors.New / fmt.Errorf / sdkerrors.Register / Wrap.
type ErrObj struct {
	Msg   *Term
	Cause *ErrObj
	Root  *ErrObj // registered root error (for Is checks)
	Site  string
	ID    int
}

// Poison is produced by lenient package initialisation for things the engine cannot evaluate.
type Poison struct{ Why string }

// Native marks a native engine object referenced from the program (e.g. a nondeterministic handle).
type Native struct {
	Kind string
	Data interface{}
}

var errorNamed types.Type // fake dynamic type for ErrObj

// ---- type classification

func namedPath(t types.Type) string {
	if n, ok := t.(*types.Named); ok {
		o := n.Obj()
		if o.Pkg() != nil {
			return o.Pkg().Path() + "." + o.Name()
		}
		return o.Name()
	}
	if a, ok := t.(*types.Alias); ok {
		return namedPath(types.Unalias(a))
	}
	return ""
}

const (
	tyInt  = "cosmossdk.io/math.Int"
	tyDec  = "github.com/cosmos/cosmos-sdk/types.Dec"
	tyTime = "time.Time"
	tyCtx  = "github.com/cosmos/cosmos-sdk/types.Context"
)

func zero(t types.Type) Value {
	switch namedPath(t) {
	case tyInt:
		return IntV{Nil: true}
	case tyDec:
		return DecV{Nil: true}
	case tyTime:
		return TimeV{NS: zeroTimeNS}
	case tyCtx:
		return &CtxObj{F: map[string]Value{}}
	case "sync.Mutex", "sync.RWMutex", "sync.Once":
		return Struct{}
	}
	switch u := t.Underlying().(type) {
	case *types.Basic:
		switch {
		case u.Info()&types.IsBoolean != 0:
			return TFalse
		case u.Info()&types.IsInteger != 0:
			return TInt64(0)
		case u.Info()&types.IsString != 0:
			return TStr("")
		case u.Info()&types.IsFloat != 0, u.Info()&types.IsComplex != 0:
			return FloatV{}
		case u.Kind() == types.UnsafePointer:
			return (*Value)(nil)
		case u.Kind() == types.UntypedNil:
			return nil
		}
		panic("zero: basic " + u.String())
	case *types.Struct:
		s := make(Struct, u.NumFields())
		for i := range s {
			s[i] = zero(u.Field(i).Type())
		}
		return s
	case *types.Array:
		a := make(Array, u.Len())
		for i := range a {
			a[i] = zero(u.Elem())
		}
		return a
	case *types.Pointer:
		return (*Value)(nil)
	case *types.Slice:
		return SliceV{}
	case *types.Map:
		return (*MapObj)(nil)
	case *types.Interface:
		return Iface{}
	case *types.Signature:
		return (*ssa.Function)(nil)
	case *types.Chan:
		return Poison{"chan"}
	case *types.Tuple:
		tu := make(Tuple, u.Len())
		for i := range tu {
			tu[i] = zero(u.At(i).Type())
		}
		return tu
	}
	panic(fmt.Sprintf("zero: unhandled type %v (%T)", t, t.Underlying()))
}

// year 1 Jan 1 00:00:00 UTC in ns relative to Unix epoch
var zeroTimeNS = TInt(new(big.Int).Mul(big.NewInt(-62135596800), big.NewInt(1000000000)))

func copyVal(v Value) Value {
	switch v := v.(type) {
	case Struct:
		c := make(Struct, len(v))
		for i, x := range v {
			c[i] = copyVal(x)
		}
		return c
	case Array:
		c := make(Array, len(v))
		for i, x := range v {
			c[i] = copyVal(x)
		}
		return c
	}
	return v
}

// ---- machine integer ranges

type intRange struct {
	lo, hi *big.Int
	mod    *big.Int
}

var intRanges = map[types.BasicKind]intRange{}

func init() {
	mk := func(k types.BasicKind, bits uint, signed bool) {
		m := new(big.Int).Lsh(bigOne, bits)
		if signed {
			h := new(big.Int).Lsh(bigOne, bits-1)
			intRanges[k] = intRange{new(big.Int).Neg(h), new(big.Int).Sub(h, bigOne), m}
		} else {
			intRanges[k] = intRange{bigZero, new(big.Int).Sub(m, bigOne), m}
		}
	}
	mk(types.Int, 64, true)
	mk(types.Int64, 64, true)
	mk(types.Int32, 32, true)
	mk(types.Int16, 16, true)
	mk(types.Int8, 8, true)
	mk(types.Uint, 64, false)
	mk(types.Uint64, 64, false)
	mk(types.Uint32, 32, false)
	mk(types.Uint16, 16, false)
	mk(types.Uint8, 8, false)
	mk(types.Uintptr, 64, false)
	mk(types.UntypedInt, 64, true)
	mk(types.UntypedRune, 32, true)
}

func basicOf(t types.Type) *types.Basic {
	b, _ := t.Underlying().(*types.Basic)
	return b
}

// wrapInt reduces the mathematical integer x to the range of machine type t (two's complement wrap).
func wrapInt(x *Term, t types.Type) *Term {
	b := basicOf(t)
	if b == nil {
		return x
	}
	r, ok := intRanges[b.Kind()]
	if !ok {
		return x
	}
	if x.lo != nil && x.hi != nil && x.lo.Cmp(r.lo) >= 0 && x.hi.Cmp(r.hi) <= 0 {
		return x
	}
	if x.IsConst() {
		v := new(big.Int).Sub(x.i, r.lo)
		v.Mod(v, r.mod)
		v.Add(v, r.lo)
		return TInt(v)
	}
	// ((x - lo) mod 2^n) + lo
	return Add(Mod(Sub(x, TInt(r.lo)), TInt(r.mod)), TInt(r.lo))
}

// ---- formatting for diagnostics / samples

func showValue(v Value, depth int) string {
	if depth <= 0 {
		return "…"
	}
	switch v := v.(type) {
	case nil:
		return "nil"
	case *Term:
		return v.String()
	case IntV:
		if v.Nil {
			return "Int(nil)"
		}
		return "Int(" + v.V.String() + ")"
	case DecV:
		if v.Nil {
			return "Dec(nil)"
		}
		return "Dec(" + v.V.String() + "e-18)"
	case TimeV:
		return "Time(" + v.NS.String() + ")"
	case Struct:
		var p []string
		for _, x := range v {
			p = append(p, showValue(x, depth-1))
		}
		return "{" + strings.Join(p, ", ") + "}"
	case Array:
		var p []string
		for _, x := range v {
			p = append(p, showValue(x, depth-1))
		}
		return "[" + strings.Join(p, ", ") + "]"
	case SliceV:
		if v.A == nil {
			return "[]nil"
		}
		var p []string
		for _, x := range v.A {
			p = append(p, showValue(x, depth-1))
		}
		return "[]{" + strings.Join(p, ", ") + "}"
	case BytesV:
		return "bytes(" + v.S.String() + ")"
	case BlobV:
		return "blob(" + showValue(v.Msg, depth-1) + ")"
	case *Value:
		if v == nil {
			return "nilptr"
		}
		return "&" + showValue(*v, depth-1)
	case Iface:
		if v.T == nil {
			return "iface(nil)"
		}
		return "iface(" + v.T.String() + ":" + showValue(v.V, depth-1) + ")"
	case *MapObj:
		if v == nil {
			return "map(nil)"
		}
		var p []string
		for i := range v.Keys {
			p = append(p, showValue(v.Keys[i], depth-1)+":"+showValue(v.Vals[i], depth-1))
		}
		sort.Strings(p)
		return "map{" + strings.Join(p, ", ") + "}"
	case *ErrObj:
		if v == nil {
			return "err(nil)"
		}
		return "err(" + v.Msg.String() + ")"
	case *CtxObj:
		return "ctx"
	case Poison:
		return "poison(" + v.Why + ")"
	case *ssa.Function:
		if v == nil {
			return "func(nil)"
		}
		return "func " + v.String()
	case *ClosureV:
		return "closure " + v.Fn.String()
	case Tuple:
		var p []string
		for _, x := range v {
			p = append(p, showValue(x, depth-1))
		}
		return "(" + strings.Join(p, ", ") + ")"
	}
	return fmt.Sprintf("%T", v)
}
